/-
  SH.Model.Routing — executable model of shard / replica routing (property C10).

  Modelled code (read branch for branch from the pinned tree):
    internal/sharding/sharding.go        Shard, shardByMappedTags
    internal/agent/agent.go              Agent.shard, Agent.getShardReplicaForSecond
    internal/format/format.go            MetricMetaValue.Sharded, MetricMetaValue.Shard
    internal/aggregator/aggregator.go    advanceRecentBuckets (the recent window), goTicker's "is it ours" test
    internal/aggregator/aggregator_handlers.go   handleSendSourceBucket: roundedToOurTime loop and bucket choice

  All Go integers here are uint32 (int32 for metric ids); they are modelled as `Nat` with explicit `% 2^32`
  where the Go expression can wrap.  xxh3 is not modelled: the 64-bit key hash is an input (DESIGN §4.7).
  Core Lean only.
-/
namespace SH.Routing

def u32 : Nat := 4294967296

/-- Go `uint32(x)` for an `int32` x -/
def toU32 (x : Int) : Nat := (x % (u32 : Int)).toNat

inductive Strategy
  | fixed      -- format.ShardFixed       "fixed_shard"
  | byMetric   -- format.ShardByMetricID  ""
  | tagsHash   -- format.ShardByTagsHash  "tags_hash"
  | builtin    -- format.ShardBuiltinDist "builtin"
  | other      -- any other string
  deriving DecidableEq, Repr

/-- the sharding fields of format.MetricMetaValue -/
structure Meta where
  fixedKey  : Nat        -- ShardFixedKey  (1-based, 0 = not set)
  strategy  : Strategy
  shardNum  : Nat        -- ShardNum (0-based)
  metricID  : Int        -- MetricID (int32)
  fixedKey2 : Nat        -- ShardFixedKey2 (1-based, 0 = not set)
  deriving DecidableEq, Repr

/-- sharding.shardByMappedTags: `(keyHash >> 32) * uint64(numShards) >> 32` -/
def shardByMappedTags (keyHash numShards : Nat) : Nat :=
  (keyHash / u32) * numShards / u32

/-- sharding.Shard.  `none` = the Go code panics (integer divide by zero when shardByMetricCount = 0).
    `keyMetric` is key.Metric, `hash` is key.XXHash (timestamp excluded by XXHash itself). -/
def shardRaw (m : Meta) (keyMetric : Int) (hash : Nat) (count : Nat) : Option (Nat × Bool) :=
  if m.fixedKey > 0 then some (m.fixedKey - 1, true)
  else match m.strategy with
    | .fixed => some (m.shardNum, true)
    | .byMetric => if count = 0 then none else some (toU32 keyMetric % count, true)
    | .tagsHash => some (shardByMappedTags hash count, true)
    | _ => some (0, false)

structure AgentShard where
  shard1 : Nat
  ok     : Bool
  shard2 : Option Nat
  deriving DecidableEq, Repr

/-- the overflow check `!shard1ok || shardNum >= uint32(len(s.Shards))` of Agent.shard -/
def overflow (raw : Nat × Bool) (nShards : Nat) : Bool := !raw.2 || decide (raw.1 ≥ nShards)

/-- the secondary shard of Agent.shard, given the (already clamped) primary -/
def secondary (m : Meta) (shard1 nShards : Nat) : Option Nat :=
  if m.fixedKey2 > 0 then
    if m.fixedKey2 - 1 < nShards ∧ m.fixedKey2 - 1 ≠ shard1 then some (m.fixedKey2 - 1) else none
  else none

/-- Agent.shard, given the result of sharding.Shard -/
def agentShardOf (m : Meta) (raw : Nat × Bool) (nShards : Nat) : AgentShard :=
  if overflow raw nShards then { shard1 := 0, ok := false, shard2 := secondary m 0 nShards }
  else { shard1 := raw.1, ok := true, shard2 := secondary m raw.1 nShards }

/-- Agent.shard (none = panic inside sharding.Shard) -/
def agentShard (m : Meta) (keyMetric : Int) (hash count nShards : Nat) : Option AgentShard :=
  (shardRaw m keyMetric hash count).map (fun raw => agentShardOf m raw nShards)

/-- MetricMetaValue.Sharded -/
def apiSharded (m : Meta) : Bool :=
  if m.fixedKey > 0 then true
  else match m.strategy with
    | .fixed => true
    | .byMetric => true
    | _ => false

/-- MetricMetaValue.Shard(numShards); none = panic (numShards = 0 with by-metric sharding) -/
def apiShard (m : Meta) (numShards : Nat) : Option Int :=
  if m.fixedKey > 0 then some ((m.fixedKey - 1 : Nat) : Int)
  else match m.strategy with
    | .fixed => some (m.shardNum : Int)
    | .byMetric => if numShards % u32 = 0 then none else some ((toU32 m.metricID % (numShards % u32) : Nat) : Int)
    | _ => some (-1)



/-- the ONE shard the API reads a metric from, chutil: `shard = meta.Metric.Shard(byMetricShards)` when
    meta.Sharded(), then `if shard >= shardMax { shard = -1 }`; none = all shards are asked (-1) -/
def apiReadShard (m : Meta) (count nShards : Nat) : Option Nat :=
  if apiSharded m then
    match apiShard m count with
    | some s => if 0 ≤ s ∧ s < (nShards : Int) then some s.toNat else none
    | none => none
  else none

/-- which number Agent.shard compares the primary shard with: `uint32(len(s.Shards))` (the code) or the by-metric
    count that was just passed to sharding.Shard (a variant kept to show that the two are not interchangeable) -/
inductive OverflowBound
  | shards
  | byMetric
  deriving DecidableEq, Repr

def agentShardOfV (v : OverflowBound) (m : Meta) (raw : Nat × Bool) (count nShards : Nat) : AgentShard :=
  if overflow raw (match v with | .shards => nShards | .byMetric => count) then
    { shard1 := 0, ok := false, shard2 := secondary m 0 nShards }
  else { shard1 := raw.1, ok := true, shard2 := secondary m raw.1 nShards }

def agentShardV (v : OverflowBound) (m : Meta) (keyMetric : Int) (hash count nShards : Nat) : Option AgentShard :=
  (shardRaw m keyMetric hash count).map (fun raw => agentShardOfV v m raw count nShards)

/-! ### the hashed part of a key: data_model.Key.MarshalAppend / Key.XXHash -/

/-- data_model.Key (Tags are int32, STags byte strings; both arrays have format.MaxTags entries in Go, any length here) -/
structure Key where
  ts     : Nat
  metric : Int
  tags   : List Int
  stags  : List (List UInt8)
  deriving DecidableEq, Repr

/-- binary.LittleEndian.PutUint32 -/
def le32 (n : Nat) : List UInt8 :=
  [UInt8.ofNat (n % 256), UInt8.ofNat (n / 256 % 256), UInt8.ofNat (n / 65536 % 256), UInt8.ofNat (n / 16777216 % 256)]

/-- `for ; n > 0 && xs[n-1] is empty; n--` : drop the trailing empty entries -/
def stripTrailing {α} (isEmpty : α → Bool) : List α → List α
  | [] => []
  | x :: rest =>
    match stripTrailing isEmpty rest with
    | [] => if isEmpty x then [] else [x]
    | r => x :: r

def tagBytes : List Int → List UInt8
  | [] => []
  | t :: rest => le32 (toU32 t) ++ tagBytes rest

/-- the zero terminated strings. (The byte written for the string-tag count is overwritten by the first string —
    `stagsPos` starts AT the count byte — and the last allocated byte stays 0; reproduced as the code does it.) -/
def stagBytes : List (List UInt8) → List UInt8
  | [] => []
  | s :: rest => s ++ [0] ++ stagBytes rest

/-- Key.MarshalAppend(nil) -/
def marshalKey (k : Key) : List UInt8 :=
  let tags := stripTrailing (fun t => t == 0) k.tags
  let stags := stripTrailing (fun (s : List UInt8) => s.isEmpty) k.stags
  le32 k.ts ++ (le32 (toU32 k.metric) ++ ([UInt8.ofNat tags.length] ++ (tagBytes tags ++ (stagBytes stags ++ [0]))))

/-- what Key.XXHash feeds to xxh3: `scratch[4:]`, "skip timestamp in first 4 bytes" -/
def hashInput (k : Key) : List UInt8 := (marshalKey k).drop 4

/-- Agent.shard for a key, xxh3 being any function `H` of the hashed bytes -/
def agentShardKey (H : List UInt8 → Nat) (m : Meta) (k : Key) (count nShards : Nat) : Option AgentShard :=
  agentShard m k.metric (H (hashInput k)) count nShards

/-! ### replicas: Agent.getShardReplicaForSecond -/

/-- `int(timestamp % 3)` -/
def primary (t : Nat) : Nat := t % 3

/-- `int((timestamp + 1 + timestamp%2) % 3)` in uint32 arithmetic -/
def spare (t : Nat) : Nat := ((t + 1 + t % 2) % u32) % 3

/-- result: replica index inside the shard (none = nil) and the `spare` flag. `alive i` = that replica's alive bit. -/
def replicaFor (alive : Nat → Bool) (t : Nat) : Option Nat × Bool :=
  if alive (primary t) then (some (primary t), false)
  else if !alive (spare t) then (none, false)
  else (some (spare t), true)

/-! ### aggregator: recent window and bucket choice -/

/-- `roundedToOurTime++` on a uint32 -/
def inc32 (t : Nat) : Nat := (t + 1) % u32

/-- the test both handleSendSourceBucket's loop and goTicker apply: `time%3 != uint32(a.replicaKey-1)`
    (`r` = replicaKey-1 as uint32) -/
def notOurs (t r : Nat) : Bool := t % 3 != r

/-- `for roundedToOurTime%3 != uint32(a.replicaKey-1) { roundedToOurTime++ }` with fuel (the real loop does not
    terminate when replicaKey ∉ {1,2,3}; four iterations are enough otherwise, even across the 2^32 wrap) -/
def roundLoop : Nat → Nat → Nat → Nat
  | 0, t, _ => t
  | f + 1, t, r => if notOurs t r then roundLoop f (inc32 t) r else t

def roundUp (t r : Nat) : Nat := roundLoop 4 t r

/-- goTicker hands a ready bucket to the inserters iff it is not skipped by the `notOurs` test -/
def insertsOwn (bucketTime r : Nat) : Bool := !notOurs bucketTime r

/-- times of a.recentBuckets, oldest first -/
abbrev Window := List Nat

def dropReady (now shortWindow : Nat) : Window → Window
  | [] => []
  | b :: rest => if now > (b + shortWindow) % u32 then dropReady now shortWindow rest else b :: rest

def readyOf (now shortWindow : Nat) : Window → Window
  | [] => []
  | b :: rest => if now > (b + shortWindow) % u32 then b :: readyOf now shortWindow rest else []

/-- `for len(a.recentBuckets) < want { append(newAggregatorBucket(a.recentBuckets[0].time + uint32(len))) }` -/
def extend (first : Nat) : Nat → Window → Window
  | 0, w => w
  | f + 1, w => extend first f (w ++ [(first + w.length) % u32])

/-- advanceRecentBuckets: returns (ready buckets, new window) -/
def advance (now shortWindow futureWindow : Nat) (w : Window) : Window × Window :=
  let ready := readyOf now shortWindow w
  let kept := dropReady now shortWindow w
  let kept := if kept.isEmpty then [(now + u32 - shortWindow % u32) % u32] else kept
  let want := shortWindow + futureWindow
  (ready, extend (kept.headD 0) (want - kept.length) kept)

inductive Filed
  | recent (idx : Nat) (bucketTime : Nat)
  | historic (key : Nat)
  | futureHistoric   -- discard
  | beyondWindow     -- discard
  | futureRecent     -- discard
  | lateRecent       -- keep: agent resends through the historic conveyor
  | noWindow         -- recentBuckets empty: the Go code would panic (never happens after the initial advance)
  deriving DecidableEq, Repr

def isFuture (rounded newest : Nat) : Bool := decide (rounded > newest)
def isLate (rounded oldest : Nat) : Bool := decide (rounded < oldest)
def isBeyond (rounded oldest hw : Nat) : Bool := decide (oldest ≥ hw) && decide (rounded < oldest - hw)

/-- the bucket choice of handleSendSourceBucket. `t` = args.Time, `r` = replicaKey-1, `hw` = historic window. -/
def file (w : Window) (r hw : Nat) (historic : Bool) (t : Nat) : Filed :=
  match w with
  | [] => .noWindow
  | oldest :: _ =>
    let newest := w.getLastD 0
    let rounded := roundUp t r
    if historic then
      if isFuture rounded newest then .futureHistoric
      else if isBeyond rounded oldest hw then .beyondWindow
      else if isLate rounded oldest then .historic t
      else .recent (rounded - oldest) (w.getD (rounded - oldest) 0)
    else
      if isFuture rounded newest then .futureRecent
      else if isLate rounded oldest then .lateRecent
      else .recent (rounded - oldest) (w.getD (rounded - oldest) 0)

end SH.Routing
