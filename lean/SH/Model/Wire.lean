/-
  SH.Model.Wire — model of the client wire formats of the StatsHouse receiver (property C13).

  Modelled code (branch for branch):
    internal/receiver/receiver.go      parser.parse (format detection, per-format batch loops, handleMetricsBatch)
    internal/receiver/msgpack.go       msgpackUnmarshalStatshouseAddMetricBatch / …Metric / msgpackLooksLikeMap
    internal/receiver/protobuf.go      protobufUnmarshalStatshouseAddMetricBatch / …Metric / …FieldEntry / …Centroid
    internal/data_model/gen2/internal  StatshouseAddMetricsBatchBytes.ReadTL1Boxed, StatshouseMetricBytes.ReadTL1,
                                       the Builtin*ReadTL1 vector readers, internal/vkgo/basictl primitives
    github.com/tinylib/msgp v1.6.1     ReadMapHeaderBytes, ReadArrayHeaderBytes, ReadMapKeyZC, ReadStringZC, ReadBytesZC,
                                       ReadFloat64Bytes, ReadUint32Bytes, ReadInt64Bytes, Skip
    google.golang.org/protobuf protowire  ConsumeVarint, ConsumeTag, ConsumeBytes, ConsumeFixed32/64, ConsumeFieldValue
  JSON is not modelled (detection only).

  Bytes are `Nat`s (< 256 when they come from the driver); floats are their IEEE-754 bit patterns, int64 values
  their two's complement in [0, 2^64).

  `Variant.fixed` is the code after fixes/C13-msgpack-alloc.diff and fixes/C13-protobuf-unique.diff;
  `Variant.orig` is the pinned tree (kept so that Props/C13 can exhibit the old defects).
-/
namespace SH.Wire

abbrev Bytes := List Nat

structure Metric where
  mask : Nat := 0
  name : Bytes := []
  tags : List (Bytes × Bytes) := []
  counter : Nat := 0
  ts : Nat := 0
  value : List Nat := []
  unique : List Nat := []
  hist : List (Nat × Nat) := []
deriving DecidableEq, Repr, Inhabited

inductive Err
  | eof | padding | noncanon | tag                               -- TL
  | short | type | «prefix» | overflow | neg | recursion | arity     -- MessagePack
  | fieldnum | varint | reserved | endgroup | depth | ts | packed8 -- Protobuf (eof shared with TL)
  | fuel                                                         -- model artefact: never produced (see Props)
deriving DecidableEq, Repr

def Err.name : Err → String
  | .eof => "eof" | .padding => "padding" | .noncanon => "noncanon" | .tag => "tag"
  | .short => "short" | .type => "type" | .prefix => "prefix" | .overflow => "overflow" | .neg => "neg"
  | .recursion => "recursion" | .arity => "arity" | .fieldnum => "fieldnum" | .varint => "varint"
  | .reserved => "reserved" | .endgroup => "endgroup" | .depth => "depth" | .ts => "ts" | .packed8 => "packed8"
  | .fuel => "fuel"

/-- what the pinned tree does (`orig`) / what it does after the two fixes (`fixed`) -/
structure Variant where
  /-- msgpack.go: collection headers are checked against the remaining bytes before `make` -/
  boundAlloc : Bool
  /-- protobuf.go: unpacked `unique` is recognised with wire type 0 (orig: wire type 1, read as a varint) -/
  uniqueWt0 : Bool
  /-- protobuf.go: an error inside a packed `unique` run is returned (orig: swallowed) -/
  packedErr : Bool
deriving DecidableEq, Repr

def Variant.fixed : Variant := ⟨true, true, true⟩
def Variant.orig : Variant := ⟨false, false, false⟩

abbrev R (α : Type) := Except Err (α × Bytes)

/-! ## integers -/

/-- little-endian value of a byte string -/
def rdLE : Bytes → Nat
  | [] => 0
  | b :: bs => b + 256 * rdLE bs

def rdBE (b : Bytes) : Nat := rdLE b.reverse

/-- `n` little-endian bytes of `v` -/
def le : Nat → Nat → Bytes
  | 0, _ => []
  | n + 1, v => v % 256 :: le n (v / 256)

def be (n v : Nat) : Bytes := (le n v).reverse

def hasBit (m k : Nat) : Bool := m / 2 ^ k % 2 == 1
def setBit (m k : Nat) : Nat := if hasBit m k then m else m + 2 ^ k

/-- sign extension of an `n`-byte two's complement value to 64 bits -/
def sext (n v : Nat) : Nat := if v < 2 ^ (8 * n - 1) then v else 2 ^ 64 - 2 ^ (8 * n) + v

/-- read `n` items -/
def readN {α : Type} (f : Bytes → R α) : Nat → Bytes → R (List α)
  | 0, b => .ok ([], b)
  | n + 1, b =>
    match f b with
    | .error e => .error e
    | .ok (x, r) =>
      match readN f n r with
      | .error e => .error e
      | .ok (xs, r') => .ok (x :: xs, r')

/-! ## TL (basictl + generated readers) -/

def tlNat (b : Bytes) : R Nat :=
  if b.length < 4 then .error .eof else .ok (rdLE (b.take 4), b.drop 4)

def tlLong (b : Bytes) : R Nat :=
  if b.length < 8 then .error .eof else .ok (rdLE (b.take 8), b.drop 8)

def tlPadLen (p : Nat) : Nat := (4 - p % 4) % 4

/-- tail of basictl.StringReadBytes once the length `l` and the padded prefix size `p` are known -/
def tlStrTail (r : Bytes) (l p : Nat) : R Bytes :=
  if r.length < l then .error .eof
  else if r.length < l + tlPadLen p then .error .eof
  else if ((r.drop l).take (tlPadLen p)).all (· == 0) then .ok (r.take l, r.drop (l + tlPadLen p))
  else .error .padding

def tlString (b : Bytes) : R Bytes :=
  match b with
  | [] => .error .eof
  | b0 :: r =>
    if b0 ≤ 253 then tlStrTail r b0 (b0 + 1)
    else if b0 = 254 then
      if r.length < 3 then .error .eof
      else if rdLE (r.take 3) ≤ 253 then .error .noncanon
      else tlStrTail (r.drop 3) (rdLE (r.take 3)) (rdLE (r.take 3))
    else
      if r.length < 7 then .error .eof
      else if rdLE (r.take 7) ≤ 2 ^ 24 - 1 then .error .noncanon
      else tlStrTail (r.drop 7) (rdLE (r.take 7)) (rdLE (r.take 7))

/-- Builtin*ReadTL1 of a vector: length, CheckLengthSanity(w, l, 4), then `l` items -/
def tlVec {α : Type} (f : Bytes → R α) (b : Bytes) : R (List α) :=
  match tlNat b with
  | .error e => .error e
  | .ok (l, r) => if r.length < l * 4 then .error .eof else readN f l r

def tlTag (b : Bytes) : R (Bytes × Bytes) :=
  match tlString b with
  | .error e => .error e
  | .ok (k, r) =>
    match tlString r with
    | .error e => .error e
    | .ok (v, r') => .ok ((k, v), r')

def tlPair (b : Bytes) : R (Nat × Nat) :=
  match tlLong b with
  | .error e => .error e
  | .ok (x, r) =>
    match tlLong r with
    | .error e => .error e
    | .ok (y, r') => .ok ((x, y), r')

def tlOpt {α : Type} (c : Bool) (f : Bytes → R α) (dflt : α) (b : Bytes) : R α :=
  if c then f b else .ok (dflt, b)

/-- StatshouseMetricBytes.ReadTL1 -/
def tlMetric (b : Bytes) : Except Err (Metric × Bytes) := do
  let (mask, b) ← tlNat b
  let (name, b) ← tlString b
  let (tags, b) ← tlVec tlTag b
  let (counter, b) ← tlOpt (hasBit mask 0) tlLong 0 b
  let (ts, b) ← tlOpt (hasBit mask 4) tlNat 0 b
  let (value, b) ← tlOpt (hasBit mask 1) (tlVec tlLong) [] b
  let (unique, b) ← tlOpt (hasBit mask 2) (tlVec tlLong) [] b
  let (hist, b) ← tlOpt (hasBit mask 3) (tlVec tlPair) [] b
  pure ({ mask, name, tags, counter, ts, value, unique, hist }, b)

def tlBatchTag : Nat := 0x56580239

/-- StatshouseAddMetricsBatchBytes.ReadTL1Boxed -/
def tlBatch (b : Bytes) : R (List Metric) :=
  if b.length < 4 then .error .eof
  else if rdLE (b.take 4) ≠ tlBatchTag then .error .tag
  else
    match tlNat (b.drop 4) with
    | .error e => .error e
    | .ok (_, r) => tlVec tlMetric r

/-! ## MessagePack (tinylib/msgp read_bytes.go) -/

/-- badPrefix(want, lead): 0xc1 is the only byte without a type -/
def mpBadPrefix (lead : Nat) : Err := if lead = 0xc1 then .prefix else .type

def mpMapHdr (b : Bytes) : R Nat :=
  match b with
  | [] => .error .short
  | lead :: r =>
    if lead / 16 = 8 then .ok (lead % 16, r)
    else if lead = 0xde then (if r.length < 2 then .error .short else .ok (rdBE (r.take 2), r.drop 2))
    else if lead = 0xdf then (if r.length < 4 then .error .short else .ok (rdBE (r.take 4), r.drop 4))
    else .error (mpBadPrefix lead)

def mpArrHdr (b : Bytes) : R Nat :=
  match b with
  | [] => .error .short
  | lead :: r =>
    if lead / 16 = 9 then .ok (lead % 16, r)
    else if lead = 0xdc then (if r.length < 2 then .error .short else .ok (rdBE (r.take 2), r.drop 2))
    else if lead = 0xdd then (if r.length < 4 then .error .short else .ok (rdBE (r.take 4), r.drop 4))
    else .error (mpBadPrefix lead)

/-- take `n` payload bytes after an `h`-byte big-endian length -/
def mpLenPayload (h : Nat) (r : Bytes) : R Bytes :=
  if r.length < h then .error .short
  else if (r.drop h).length < rdBE (r.take h) then .error .short
  else .ok ((r.drop h).take (rdBE (r.take h)), (r.drop h).drop (rdBE (r.take h)))

/-- ReadStringZC -/
def mpStr (b : Bytes) : R Bytes :=
  match b with
  | [] => .error .short
  | lead :: r =>
    if lead / 32 = 5 then (if r.length < lead % 32 then .error .short else .ok (r.take (lead % 32), r.drop (lead % 32)))
    else if lead = 0xd9 then mpLenPayload 1 r
    else if lead = 0xda then mpLenPayload 2 r
    else if lead = 0xdb then mpLenPayload 4 r
    else .error .type

/-- ReadBytesZC -/
def mpBin (b : Bytes) : R Bytes :=
  match b with
  | [] => .error .short
  | lead :: r =>
    if lead = 0xc4 then mpLenPayload 1 r
    else if lead = 0xc5 then mpLenPayload 2 r
    else if lead = 0xc6 then mpLenPayload 4 r
    else .error (mpBadPrefix lead)

def isBinLead (b : Bytes) : Bool :=
  match b with
  | lead :: _ => lead == 0xc4 || lead == 0xc5 || lead == 0xc6
  | [] => false

/-- ReadMapKeyZC: a str, or (on a type error whose encoded type is bin) a bin -/
def mpKey (b : Bytes) : R Bytes :=
  match mpStr b with
  | .ok x => .ok x
  | .error .type => if isBinLead b then mpBin b else .error .type
  | .error e => .error e

/-- float32 → float64 widening as the hardware does it (signalling NaNs are quieted) -/
def normSub (fuel m e : Nat) : Nat × Nat :=
  match fuel with
  | 0 => (m, e)
  | f + 1 => if m < 2 ^ 23 then normSub f (m * 2) (e - 1) else (m, e)

def f32to64 (w : Nat) : Nat :=
  let s := w / 2 ^ 31 % 2
  let e := w / 2 ^ 23 % 256
  let m := w % 2 ^ 23
  if e = 255 then
    if m = 0 then s * 2 ^ 63 + 2047 * 2 ^ 52
    else s * 2 ^ 63 + 2047 * 2 ^ 52 + (if m < 2 ^ 22 then m + 2 ^ 22 else m) * 2 ^ 29
  else if e = 0 then
    if m = 0 then s * 2 ^ 63
    else
      let (m', e') := normSub 24 m 897     -- 897 = 1 - 127 + 1023
      s * 2 ^ 63 + e' * 2 ^ 52 + (m' - 2 ^ 23) * 2 ^ 29
  else s * 2 ^ 63 + (e + 896) * 2 ^ 52 + m * 2 ^ 29

/-- ReadFloat64Bytes (accepts float32 as well, nothing else) -/
def mpF64 (b : Bytes) : R Nat :=
  match b with
  | [] => .error .short
  | lead :: r =>
    if b.length < 9 then
      (if b.length ≥ 5 ∧ lead = 0xca then .ok (f32to64 (rdBE (r.take 4)), r.drop 4) else .error .short)
    else if lead ≠ 0xcb then
      (if lead = 0xca then .ok (f32to64 (rdBE (r.take 4)), r.drop 4) else .error (mpBadPrefix lead))
    else .ok (rdBE (r.take 8), r.drop 8)

def mpFixed (n : Nat) (r : Bytes) (f : Nat → Except Err Nat) : R Nat :=
  if r.length < n then .error .short
  else match f (rdBE (r.take n)) with
    | .error e => .error e
    | .ok v => .ok (v, r.drop n)

def nonNeg (n : Nat) (v : Nat) : Except Err Nat := if v < 2 ^ (8 * n - 1) then .ok v else .error .neg

/-- ReadUint64Bytes -/
def mpU64 (b : Bytes) : R Nat :=
  match b with
  | [] => .error .short
  | lead :: r =>
    if lead < 128 then .ok (lead, r)
    else if lead = 0xd0 then mpFixed 1 r (nonNeg 1)
    else if lead = 0xcc then mpFixed 1 r .ok
    else if lead = 0xd1 then mpFixed 2 r (nonNeg 2)
    else if lead = 0xcd then mpFixed 2 r .ok
    else if lead = 0xd2 then mpFixed 4 r (nonNeg 4)
    else if lead = 0xce then mpFixed 4 r .ok
    else if lead = 0xd3 then mpFixed 8 r (nonNeg 8)
    else if lead = 0xcf then mpFixed 8 r .ok
    else if lead / 32 = 7 then .error .neg
    else .error (mpBadPrefix lead)

/-- ReadUint32Bytes: the overflow test comes first, then the error of ReadUint64Bytes -/
def mpU32 (b : Bytes) : R Nat :=
  match mpU64 b with
  | .error e => .error e
  | .ok (v, r) => if v > 2 ^ 32 - 1 then .error .overflow else .ok (v, r)

/-- ReadInt64Bytes; the result is the two's complement of the int64 -/
def mpI64 (b : Bytes) : R Nat :=
  match b with
  | [] => .error .short
  | lead :: r =>
    if lead < 128 then .ok (lead, r)
    else if lead / 32 = 7 then .ok (sext 1 lead, r)
    else if lead = 0xd0 then mpFixed 1 r (fun v => .ok (sext 1 v))
    else if lead = 0xcc then mpFixed 1 r .ok
    else if lead = 0xd1 then mpFixed 2 r (fun v => .ok (sext 2 v))
    else if lead = 0xcd then mpFixed 2 r .ok
    else if lead = 0xd2 then mpFixed 4 r (fun v => .ok (sext 4 v))
    else if lead = 0xce then mpFixed 4 r .ok
    else if lead = 0xd3 then mpFixed 8 r .ok
    else if lead = 0xcf then mpFixed 8 r (fun v => if v > 2 ^ 63 - 1 then .error .overflow else .ok v)
    else .error (mpBadPrefix lead)

/-- msgp's `bytespec` of a lead byte: how getSize measures the object that starts with it -/
inductive MpSpec
  | fixed (size objs : Nat)      -- `size` bytes, then `objs` nested objects
  | ext (size hdr : Nat)         -- `size` bytes of prefix whose last `hdr` bytes hold the payload length
  | cont (size hdr mul : Nat)    -- map16/32, array16/32: `mul` × (big-endian `hdr` bytes) nested objects
  | invalid                      -- 0xc1
deriving DecidableEq, Repr

def mpSpec (lead : Nat) : MpSpec :=
  if lead < 128 then .fixed 1 0                       -- fixint
  else if lead / 16 = 8 then .fixed 1 (2 * (lead % 16)) -- fixmap
  else if lead / 16 = 9 then .fixed 1 (lead % 16)       -- fixarray
  else if lead / 32 = 5 then .fixed (1 + lead % 32) 0   -- fixstr
  else if lead / 32 = 7 then .fixed 1 0                 -- negative fixint
  else if lead = 0xc0 ∨ lead = 0xc2 ∨ lead = 0xc3 then .fixed 1 0
  else if lead = 0xc4 then .ext 2 1
  else if lead = 0xc5 then .ext 3 2
  else if lead = 0xc6 then .ext 5 4
  else if lead = 0xc7 then .ext 3 1
  else if lead = 0xc8 then .ext 4 2
  else if lead = 0xc9 then .ext 6 4
  else if lead = 0xca then .fixed 5 0
  else if lead = 0xcb then .fixed 9 0
  else if lead = 0xcc ∨ lead = 0xd0 then .fixed 2 0
  else if lead = 0xcd ∨ lead = 0xd1 then .fixed 3 0
  else if lead = 0xce ∨ lead = 0xd2 then .fixed 5 0
  else if lead = 0xcf ∨ lead = 0xd3 then .fixed 9 0
  else if lead = 0xd4 then .fixed 3 0
  else if lead = 0xd5 then .fixed 4 0
  else if lead = 0xd6 then .fixed 6 0
  else if lead = 0xd7 then .fixed 10 0
  else if lead = 0xd8 then .fixed 18 0
  else if lead = 0xd9 then .ext 2 1
  else if lead = 0xda then .ext 3 2
  else if lead = 0xdb then .ext 5 4
  else if lead = 0xdc then .cont 3 2 1
  else if lead = 0xdd then .cont 5 4 1
  else if lead = 0xde then .cont 3 2 2
  else if lead = 0xdf then .cont 5 4 2
  else .invalid

/-- getSize: (bytes to skip, objects to skip) -/
def mpGetSize (b : Bytes) : Except Err (Nat × Nat) :=
  match b with
  | [] => .error .short
  | lead :: r =>
    match mpSpec (lead % 256) with
    | .fixed size objs => .ok (size, objs)
    | .ext size hdr => if b.length < size then .error .short else .ok (size + rdBE (r.take hdr), 0)
    | .cont size hdr mul => if b.length < size then .error .short else .ok (size, mul * rdBE (r.take hdr))
    | .invalid => .error .prefix

def mpRecursionLimit : Nat := 100000

/-- skip `count` objects one after another (skipDepth called `count` times at nesting `depth`) -/
def mpSkipN : Nat → Nat → Bytes → Nat → Except Err Bytes
  | _, 0, b, _ => .ok b
  | 0, _ + 1, _, _ => .error .fuel
  | f + 1, c + 1, b, d =>
    if d ≥ mpRecursionLimit then .error .recursion
    else
      match mpGetSize b with
      | .error e => .error e
      | .ok (sz, asz) =>
        if b.length < sz then .error .short
        else
          match mpSkipN f asz (b.drop sz) (d + 1) with
          | .error e => .error e
          | .ok b' => mpSkipN f c b' d

def mpSkip (b : Bytes) : Except Err Bytes := mpSkipN (b.length + 1) 1 b 0

/-- a collection header at a site where the decoder allocates `n` elements -/
def mpCheckLen (v : Variant) (n : Nat) (r : Bytes) : Bool := !v.boundAlloc || n ≤ r.length

def mpColl (v : Variant) (isMap : Bool) (b : Bytes) : R Nat :=
  match (if isMap then mpMapHdr b else mpArrHdr b) with
  | .error e => .error e
  | .ok (n, r) => if mpCheckLen v n r then .ok (n, r) else .error .short

/-- a decoding result together with the largest element count passed to `make` on the way
    (also on the error path: that is where the pinned tree dies) -/
structure MPR (α : Type) where
  alloc : Nat
  res : R α

def kName : Bytes := [110, 97, 109, 101]
def kTags : Bytes := [116, 97, 103, 115]
def kCounter : Bytes := [99, 111, 117, 110, 116, 101, 114]
def kTs : Bytes := [116, 115]
def kValue : Bytes := [118, 97, 108, 117, 101]
def kUnique : Bytes := [117, 110, 105, 113, 117, 101]
def kHistogram : Bytes := [104, 105, 115, 116, 111, 103, 114, 97, 109]
def kMetrics : Bytes := [109, 101, 116, 114, 105, 99, 115]

def mpTag (b : Bytes) : R (Bytes × Bytes) :=
  match mpStr b with
  | .error e => .error e
  | .ok (k, r) =>
    match mpStr r with
    | .error e => .error e
    | .ok (v, r') => .ok ((k, v), r')

def mpBucket (b : Bytes) : R (Nat × Nat) :=
  match mpArrHdr b with
  | .error e => .error e
  | .ok (n, r) =>
    if n ≠ 2 then .error .arity
    else
      match mpF64 r with
      | .error e => .error e
      | .ok (x, r1) =>
        match mpF64 r1 with
        | .error e => .error e
        | .ok (y, r2) => .ok ((x, y), r2)

def mapR {α β : Type} (x : R α) (f : α → β) : R β :=
  match x with
  | .error e => .error e
  | .ok (a, r) => .ok (f a, r)

/-- a collection field: header (+ length check), allocation of `n` elements, then `n` items -/
def mpCollField {α : Type} (v : Variant) (isMap : Bool) (item : Bytes → R α) (b : Bytes) (upd : List α → Metric) : MPR Metric :=
  match mpColl v isMap b with
  | .error e => ⟨0, .error e⟩
  | .ok (n, r) => ⟨n, mapR (readN item n r) upd⟩

/-- one iteration of the `switch` in msgpackUnmarshalStatshouseMetric -/
def mpField (v : Variant) (m : Metric) (key b : Bytes) : MPR Metric :=
  if key = kName then ⟨0, mapR (mpStr b) (fun s => { m with name := s })⟩
  else if key = kTags then mpCollField v true mpTag b (fun ts => { m with tags := ts })
  else if key = kCounter then ⟨0, mapR (mpF64 b) (fun x => { m with counter := x, mask := setBit m.mask 0 })⟩
  else if key = kTs then ⟨0, mapR (mpU32 b) (fun x => { m with ts := x, mask := setBit m.mask 4 })⟩
  else if key = kValue then mpCollField v false mpF64 b (fun xs => { m with value := xs, mask := setBit m.mask 1 })
  else if key = kUnique then mpCollField v false mpI64 b (fun xs => { m with unique := xs, mask := setBit m.mask 2 })
  else if key = kHistogram then mpCollField v false mpBucket b (fun xs => { m with hist := xs, mask := setBit m.mask 3 })
  else ⟨0, match mpSkip b with | .error e => .error e | .ok r => .ok (m, r)⟩

def mpFields (v : Variant) : Nat → Metric → Bytes → MPR Metric
  | 0, m, b => ⟨0, .ok (m, b)⟩
  | n + 1, m, b =>
    match mpKey b with
    | .error e => ⟨0, .error e⟩
    | .ok (k, r) =>
      match mpField v m k r with
      | ⟨a, .error e⟩ => ⟨a, .error e⟩
      | ⟨a, .ok (m', r')⟩ => let t := mpFields v n m' r'; ⟨max a t.alloc, t.res⟩

/-- msgpackUnmarshalStatshouseMetric -/
def mpMetric (v : Variant) (b : Bytes) : MPR Metric :=
  match mpMapHdr b with
  | .error e => ⟨0, .error e⟩
  | .ok (n, r) => mpFields v n {} r

def mpMetrics (v : Variant) : Nat → Bytes → MPR (List Metric)
  | 0, b => ⟨0, .ok ([], b)⟩
  | n + 1, b =>
    match mpMetric v b with
    | ⟨a, .error e⟩ => ⟨a, .error e⟩
    | ⟨a, .ok (m, r)⟩ =>
      let t := mpMetrics v n r
      ⟨max a t.alloc, mapR t.res (fun ms => m :: ms)⟩

/-- the field loop of msgpackUnmarshalStatshouseAddMetricBatch (a repeated "metrics" key overwrites) -/
def mpBatchFields (v : Variant) : Nat → List Metric → Bytes → MPR (List Metric)
  | 0, ms, b => ⟨0, .ok (ms, b)⟩
  | n + 1, ms, b =>
    match mpKey b with
    | .error e => ⟨0, .error e⟩
    | .ok (k, r) =>
      if k = kMetrics then
        match mpColl v false r with
        | .error e => ⟨0, .error e⟩
        | .ok (cnt, r1) =>
          match mpMetrics v cnt r1 with
          | ⟨a, .error e⟩ => ⟨max cnt a, .error e⟩
          | ⟨a, .ok (ms', r2)⟩ => let t := mpBatchFields v n ms' r2; ⟨max (max cnt a) t.alloc, t.res⟩
      else
        match mpSkip r with
        | .error e => ⟨0, .error e⟩
        | .ok r1 => mpBatchFields v n ms r1

def mpBatch (v : Variant) (b : Bytes) : MPR (List Metric) :=
  match mpMapHdr b with
  | .error e => ⟨0, .error e⟩
  | .ok (n, r) => mpBatchFields v n [] r

def mpLooksLikeMap (b : Bytes) : Bool :=
  match mpMapHdr b with
  | .ok _ => true
  | .error _ => false

/-! ## Protobuf (protowire + protobuf.go) -/

/-- ConsumeVarint: up to 10 bytes, the tenth may only be 0 or 1 -/
def pbVarintGo : Nat → Nat → Bytes → R Nat
  | i, acc, b =>
    match b with
    | [] => .error .eof
    | y :: r =>
      if i ≥ 9 then (if y < 2 then .ok (acc + y * 2 ^ 63, r) else .error .varint)
      else if y < 128 then .ok (acc + y * 2 ^ (7 * i), r)
      else pbVarintGo (i + 1) (acc + (y - 128) * 2 ^ (7 * i)) r

def pbVarint (b : Bytes) : R Nat := pbVarintGo 0 0 b

/-- ConsumeTag → (field number, wire type) -/
def pbTag (b : Bytes) : R (Nat × Nat) :=
  match pbVarint b with
  | .error e => .error e
  | .ok (v, r) => if v / 8 > 2 ^ 31 - 1 ∨ v / 8 < 1 then .error .fieldnum else .ok ((v / 8, v % 8), r)

def pbBytes (b : Bytes) : R Bytes :=
  match pbVarint b with
  | .error e => .error e
  | .ok (m, r) => if m > r.length then .error .eof else .ok (r.take m, r.drop m)

def pbFixed64 (b : Bytes) : R Nat :=
  if b.length < 8 then .error .eof else .ok (rdLE (b.take 8), b.drop 8)

def pbFixed32 (b : Bytes) : R Nat :=
  if b.length < 4 then .error .eof else .ok (rdLE (b.take 4), b.drop 4)

def pbRecursionLimit : Int := 10000

mutual
  /-- consumeFieldValueD -/
  def pbSkipVal : Nat → Nat → Nat → Bytes → Int → Except Err Bytes
    | 0, _, _, _, _ => .error .fuel
    | f + 1, num, typ, b, depth =>
      if typ = 0 then (match pbVarint b with | .error e => .error e | .ok (_, r) => .ok r)
      else if typ = 5 then (match pbFixed32 b with | .error e => .error e | .ok (_, r) => .ok r)
      else if typ = 1 then (match pbFixed64 b with | .error e => .error e | .ok (_, r) => .ok r)
      else if typ = 2 then (match pbBytes b with | .error e => .error e | .ok (_, r) => .ok r)
      else if typ = 3 then (if depth < 0 then .error .depth else pbSkipGroup f num b depth)
      else if typ = 4 then .error .endgroup
      else .error .reserved
  /-- the `for` loop of the StartGroupType case -/
  def pbSkipGroup : Nat → Nat → Bytes → Int → Except Err Bytes
    | 0, _, _, _ => .error .fuel
    | f + 1, num, b, depth =>
      match pbTag b with
      | .error e => .error e
      | .ok ((num2, typ2), r) =>
        if typ2 = 4 then (if num ≠ num2 then .error .endgroup else .ok r)
        else
          match pbSkipVal f num2 typ2 r (depth - 1) with
          | .error e => .error e
          | .ok r' => pbSkipGroup f num r' depth
end

/-- protoSkipField -/
def pbSkip (num typ : Nat) (b : Bytes) : Except Err Bytes := pbSkipVal (2 * b.length + 2) num typ b pbRecursionLimit

/-- protobufUnmarshalFieldEntry -/
def pbEntry : Nat → (Bytes × Bytes) → Bytes → Except Err (Bytes × Bytes)
  | 0, _, _ => .error .fuel
  | f + 1, kv, b =>
    if b = [] then .ok kv
    else
      match pbTag b with
      | .error e => .error e
      | .ok ((num, typ), r) =>
        if num = 1 ∧ typ = 2 then (match pbBytes r with | .error e => .error e | .ok (s, r') => pbEntry f (s, kv.2) r')
        else if num = 2 ∧ typ = 2 then (match pbBytes r with | .error e => .error e | .ok (s, r') => pbEntry f (kv.1, s) r')
        else match pbSkip num typ r with | .error e => .error e | .ok r' => pbEntry f kv r'

/-- protobufUnmarshalCentroid -/
def pbCentroid : Nat → (Nat × Nat) → Bytes → Except Err (Nat × Nat)
  | 0, _, _ => .error .fuel
  | f + 1, c, b =>
    if b = [] then .ok c
    else
      match pbTag b with
      | .error e => .error e
      | .ok ((num, typ), r) =>
        if num = 1 ∧ typ = 1 then (match pbFixed64 r with | .error e => .error e | .ok (x, r') => pbCentroid f (x, c.2) r')
        else if num = 2 ∧ typ = 1 then (match pbFixed64 r with | .error e => .error e | .ok (x, r') => pbCentroid f (c.1, x) r')
        else match pbSkip num typ r with | .error e => .error e | .ok r' => pbCentroid f c r'

/-- the fixed64 items of a packed run whose length is a multiple of 8 -/
def pbPackedF64 : Nat → Bytes → List Nat
  | 0, _ => []
  | f + 1, b => if b.length < 8 then [] else rdLE (b.take 8) :: pbPackedF64 f (b.drop 8)

/-- protoReadPackedVarInt64's loop: the values read and whether a varint was malformed -/
def pbPackedVar : Nat → Bytes → List Nat × Option Err
  | 0, _ => ([], some .fuel)
  | f + 1, b =>
    if b = [] then ([], none)
    else
      match pbVarint b with
      | .error e => ([], some e)
      | .ok (x, r) => let t := pbPackedVar f r; (x :: t.1, t.2)

/-- one iteration of the loop in protobufUnmarshalStatshouseMetric, after the tag has been read -/
def pbMetricField (v : Variant) (m : Metric) (num typ : Nat) (r : Bytes) : R Metric :=
  if num = 1 ∧ typ = 2 then mapR (pbBytes r) (fun s => { m with name := s })
  else if num = 2 ∧ typ = 2 then
    match pbBytes r with
    | .error e => .error e
    | .ok (d, r') =>
      match pbEntry (d.length + 1) ([], []) d with
      | .error e => .error e
      | .ok kv => .ok ({ m with tags := m.tags ++ [kv] }, r')
  else if num = 3 ∧ typ = 1 then mapR (pbFixed64 r) (fun x => { m with counter := x, mask := setBit m.mask 0 })
  else if num = 4 ∧ typ = 0 then
    match pbVarint r with
    | .error e => .error e
    | .ok (x, r') => if x > 2 ^ 32 - 1 then .error .ts else .ok ({ m with ts := x, mask := setBit m.mask 4 }, r')
  else if num = 5 ∧ typ = 2 then
    match pbBytes r with
    | .error e => .error e
    | .ok (d, r') =>
      if d.length % 8 ≠ 0 then .error .packed8
      else .ok ({ m with value := m.value ++ pbPackedF64 d.length d, mask := setBit m.mask 1 }, r')
  else if num = 5 ∧ typ = 1 then
    mapR (pbFixed64 r) (fun x => { m with value := m.value ++ [x], mask := setBit m.mask 1 })
  else if num = 6 ∧ typ = 2 then
    match pbBytes r with
    | .error e => .error e
    | .ok (d, r') =>
      match pbPackedVar (d.length + 1) d with
      | (xs, none) => .ok ({ m with unique := m.unique ++ xs, mask := setBit m.mask 2 }, r')
      | (xs, some e) =>
        if v.packedErr then .error e
        -- pinned tree: `return buf, nil` — the values read so far are kept and parsing resumes at the length prefix
        else .ok ({ m with unique := m.unique ++ xs, mask := setBit m.mask 2 }, r)
  else if num = 6 ∧ typ = (if v.uniqueWt0 then 0 else 1) then
    mapR (pbVarint r) (fun x => { m with unique := m.unique ++ [x], mask := setBit m.mask 2 })
  else if num = 7 ∧ typ = 2 then
    match pbBytes r with
    | .error e => .error e
    | .ok (d, r') =>
      match pbCentroid (d.length + 1) (0, 0) d with
      | .error e => .error e
      | .ok c => .ok ({ m with hist := m.hist ++ [c], mask := setBit m.mask 3 }, r')
  else match pbSkip num typ r with | .error e => .error e | .ok r' => .ok (m, r')

/-- protobufUnmarshalStatshouseMetric -/
def pbMetric (v : Variant) : Nat → Metric → Bytes → Except Err Metric
  | 0, _, _ => .error .fuel
  | f + 1, m, b =>
    if b = [] then .ok m
    else
      match pbTag b with
      | .error e => .error e
      | .ok ((num, typ), r) =>
        match pbMetricField v m num typ r with
        | .error e => .error e
        | .ok (m', r') => pbMetric v f m' r'

/-- protobufUnmarshalStatshouseAddMetricBatch: metrics decoded, or the error with the buffer it returns -/
def pbBatch (v : Variant) : Nat → List Metric → Bytes → Except (Err × Bytes) (List Metric)
  | 0, _, b => .error (.fuel, b)
  | f + 1, ms, b =>
    if b = [] then .ok ms
    else
      match pbTag b with
      | .error e => .error (e, b)
      | .ok ((num, typ), r) =>
        if num = 13337 ∧ typ = 2 then
          match pbBytes r with
          | .error e => .error (e, r)
          | .ok (d, r') =>
            match pbMetric v (d.length + 1) {} d with
            | .error e => .error (e, r')
            | .ok m => pbBatch v f (ms ++ [m]) r'
        else
          match pbSkip num typ r with
          | .error e => .error (e, r)
          | .ok r' => pbBatch v f ms r'

/-! ## parser.parse -/

inductive Fmt | empty | tl | json | legacy | msgpack | pb
deriving DecidableEq, Repr

def Fmt.name : Fmt → String
  | .empty => "empty" | .tl => "tl" | .json => "json" | .legacy => "legacy" | .msgpack => "msgpack" | .pb => "pb"

def tlPrefix : Bytes := [0x39, 0x02, 0x58, 0x56]

/-- the `switch` of parser.parse -/
def detect (pkt : Bytes) : Fmt :=
  if pkt = [] then .empty
  else if pkt.take 4 = tlPrefix then .tl
  else if pkt.take 1 = [0x7b] then .json
  else if pkt.take 2 = [0x53, 0x48] then .legacy
  else if mpLooksLikeMap pkt then .msgpack
  else .pb

structure Parsed where
  fmt : Fmt
  delivered : List Metric := []    -- HandleMetrics calls, in order
  err : Option Err := none         -- the error parse returns
  perr : Bool := false             -- HandleParseError was called
  alloc : Nat := 0                 -- largest element count passed to make (MessagePack)
deriving DecidableEq, Repr

/-- `for len(pkt) > 0 { pkt, err = read(pkt); … }` for the self-delimiting formats -/
def batchLoop (dec : Bytes → MPR (List Metric)) (fmt : Fmt) : Nat → Bytes → List Metric → Nat → Parsed
  | 0, _, acc, a => { fmt, delivered := acc, err := some .fuel, alloc := a }
  | f + 1, pkt, acc, a =>
    if pkt = [] then { fmt, delivered := acc, alloc := a }
    else
      match dec pkt with
      | ⟨a', .error e⟩ => { fmt, delivered := acc, err := some e, perr := true, alloc := max a a' }
      | ⟨a', .ok (ms, rest)⟩ => batchLoop dec fmt f rest (acc ++ ms) (max a a')

def parse (v : Variant) (pkt : Bytes) : Parsed :=
  match detect pkt with
  | .empty => { fmt := .empty }
  | .json => { fmt := .json }
  | .legacy => { fmt := .legacy }
  | .tl => batchLoop (fun b => ⟨0, tlBatch b⟩) .tl (pkt.length + 1) pkt [] 0
  | .msgpack => batchLoop (mpBatch v) .msgpack (pkt.length + 1) pkt [] 0
  | .pb =>
    -- a successful protobuf read consumes the whole packet, so the loop body runs once;
    -- HandleParseError gets the buffer *returned* by the reader and is skipped when that is empty
    match pbBatch v (pkt.length + 1) [] pkt with
    | .ok ms => { fmt := .pb, delivered := ms }
    | .error (e, rest) => { fmt := .pb, err := some e, perr := rest ≠ [] }

/-! ## TCP / unix stream framing (receiver_tcp.go: TCP.receiveLoop)

  A connection carries frames `uint32-LE bodyLen ++ body`, `bodyLen ≤ MaxTCPFrameBody`; every body goes to parser.parse.
  `maxBody` and `bufSize` are parameters: the code has `MaxTCPFrameBody` (regenerated into SH/Gen/C13.lean) and a read
  buffer `make([]byte, 4+MaxTCPFrameBody)`. -/

def frame (body : Bytes) : Bytes := le 4 body.length ++ body

inductive ConnEnd | eof | framing | stall
deriving DecidableEq, Repr

/-- the inner `for` loop over the buffered bytes: complete frames, the unconsumed rest, and whether a length header
    above `maxBody` was met (the loop then returns a framing error and the connection is closed) -/
def splitF (maxBody : Nat) : Nat → Bytes → List Bytes × Bytes × Bool
  | 0, b => ([], b, false)
  | f + 1, b =>
    if b.length < 4 then ([], b, false)
    else if rdLE (b.take 4) > maxBody then ([], b, true)
    else if b.length < 4 + rdLE (b.take 4) then ([], b, false)
    else
      let t := splitF maxBody f (b.drop (4 + rdLE (b.take 4)))
      ((b.drop 4).take (rdLE (b.take 4)) :: t.1, t.2.1, t.2.2)

/-- specification: the frames of a whole byte stream (unbounded buffer) -/
def deframe (maxBody : Nat) (stream : Bytes) : List Bytes × Bytes × Bool := splitF maxBody (stream.length + 1) stream

structure Conn where
  buf : Bytes := []            -- data[:size] carried over between reads
  frames : List Bytes := []    -- bodies handed to parse so far
  ending : Option ConnEnd := none
deriving DecidableEq, Repr

/-- the outer loop while `avail` bytes are readable: each `conn.Read(data[size:])` takes what fits into the free part
    of the buffer; a full buffer without a complete frame makes Read return (0, nil) forever (`stall`) -/
def recv (maxBody bufSize : Nat) : Nat → Conn → Bytes → Conn
  | 0, c, _ => c
  | f + 1, c, avail =>
    if c.ending.isSome then c
    else if avail = [] then c
    else if bufSize - c.buf.length = 0 then { c with ending := some .stall }
    else
      let got := c.buf ++ avail.take (bufSize - c.buf.length)
      let t := splitF maxBody (got.length + 1) got
      if t.2.2 then { c with frames := c.frames ++ t.1, buf := t.2.1, ending := some .framing }
      else recv maxBody bufSize f { c with frames := c.frames ++ t.1, buf := t.2.1 } (avail.drop (bufSize - c.buf.length))

/-- a connection fed with the given write chunks, then closed by the client -/
def runConn (maxBody bufSize : Nat) (chunks : List Bytes) : Conn :=
  let c := chunks.foldl (fun c ch => recv maxBody bufSize (ch.length + 1) c ch) {}
  if c.ending.isSome then c else { c with ending := some .eof }


/-! ## canonical client encoders (tied to the real encoders by the `enc` op of the correspondence) -/

def catMap {α : Type} (f : α → Bytes) : List α → Bytes
  | [] => []
  | x :: xs => f x ++ catMap f xs

def zeros (n : Nat) : Bytes := List.replicate n 0

/-- basictl.StringWriteBytes -/
def tlEncString (s : Bytes) : Bytes :=
  if s.length ≤ 253 then s.length :: s ++ zeros (tlPadLen (s.length + 1))
  else if s.length ≤ 2 ^ 24 - 1 then 254 :: le 3 s.length ++ s ++ zeros (tlPadLen s.length)
  else 255 :: le 7 s.length ++ s ++ zeros (tlPadLen s.length)

def tlEncVec {α : Type} (f : α → Bytes) (xs : List α) : Bytes := le 4 xs.length ++ catMap f xs

/-- StatshouseMetricBytes.WriteTL1 -/
def tlEncMetric (m : Metric) : Bytes :=
  le 4 m.mask ++ tlEncString m.name
    ++ tlEncVec (fun t => tlEncString t.1 ++ tlEncString t.2) m.tags
    ++ (if hasBit m.mask 0 then le 8 m.counter else [])
    ++ (if hasBit m.mask 4 then le 4 m.ts else [])
    ++ (if hasBit m.mask 1 then tlEncVec (le 8) m.value else [])
    ++ (if hasBit m.mask 2 then tlEncVec (le 8) m.unique else [])
    ++ (if hasBit m.mask 3 then tlEncVec (fun h => le 8 h.1 ++ le 8 h.2) m.hist else [])

/-- StatshouseAddMetricsBatchBytes.WriteTL1Boxed with fields_mask 0 -/
def tlEncBatch (ms : List Metric) : Bytes := le 4 tlBatchTag ++ le 4 0 ++ tlEncVec tlEncMetric ms

/-- msgp.AppendMapHeader / AppendArrayHeader -/
def mpEncHdr (isMap : Bool) (n : Nat) : Bytes :=
  if n ≤ 15 then [(if isMap then 0x80 else 0x90) + n]
  else if n ≤ 65535 then (if isMap then 0xde else 0xdc) :: be 2 n
  else (if isMap then 0xdf else 0xdd) :: be 4 n

/-- msgp.AppendString -/
def mpEncStr (s : Bytes) : Bytes :=
  if s.length ≤ 31 then (0xa0 + s.length) :: s
  else if s.length ≤ 255 then 0xd9 :: be 1 s.length ++ s
  else if s.length ≤ 65535 then 0xda :: be 2 s.length ++ s
  else 0xdb :: be 4 s.length ++ s

def mpEncF64 (x : Nat) : Bytes := 0xcb :: be 8 x

/-- msgp.AppendUint64 -/
def mpEncUint (u : Nat) : Bytes :=
  if u ≤ 127 then [u]
  else if u ≤ 255 then 0xcc :: be 1 u
  else if u ≤ 65535 then 0xcd :: be 2 u
  else if u ≤ 2 ^ 32 - 1 then 0xce :: be 4 u
  else 0xcf :: be 8 u

/-- msgp.AppendInt64 on the two's complement `x` of the value -/
def mpEncInt (x : Nat) : Bytes :=
  if x < 2 ^ 63 then
    (if x ≤ 127 then [x]
     else if x ≤ 32767 then 0xd1 :: be 2 x
     else if x ≤ 2 ^ 31 - 1 then 0xd2 :: be 4 x
     else 0xd3 :: be 8 x)
  else
    (if x ≥ 2 ^ 64 - 32 then [x % 256]
     else if x ≥ 2 ^ 64 - 128 then 0xd0 :: be 1 (x % 2 ^ 8)
     else if x ≥ 2 ^ 64 - 32768 then 0xd1 :: be 2 (x % 2 ^ 16)
     else if x ≥ 2 ^ 64 - 2 ^ 31 then 0xd2 :: be 4 (x % 2 ^ 32)
     else 0xd3 :: be 8 x)

def countTrue (l : List Bool) : Nat := (l.filter id).length

/-- a MessagePack client that sends exactly the fields present in the metric, in schema order -/
def mpEncMetric (m : Metric) : Bytes :=
  mpEncHdr true (2 + countTrue [hasBit m.mask 0, hasBit m.mask 4, hasBit m.mask 1, hasBit m.mask 2, hasBit m.mask 3])
    ++ mpEncStr kName ++ mpEncStr m.name
    ++ mpEncStr kTags ++ mpEncHdr true m.tags.length ++ catMap (fun t => mpEncStr t.1 ++ mpEncStr t.2) m.tags
    ++ (if hasBit m.mask 0 then mpEncStr kCounter ++ mpEncF64 m.counter else [])
    ++ (if hasBit m.mask 4 then mpEncStr kTs ++ mpEncUint m.ts else [])
    ++ (if hasBit m.mask 1 then mpEncStr kValue ++ mpEncHdr false m.value.length ++ catMap mpEncF64 m.value else [])
    ++ (if hasBit m.mask 2 then mpEncStr kUnique ++ mpEncHdr false m.unique.length ++ catMap mpEncInt m.unique else [])
    ++ (if hasBit m.mask 3 then mpEncStr kHistogram ++ mpEncHdr false m.hist.length
          ++ catMap (fun h => mpEncHdr false 2 ++ mpEncF64 h.1 ++ mpEncF64 h.2) m.hist else [])

def mpEncBatch (ms : List Metric) : Bytes :=
  mpEncHdr true 1 ++ mpEncStr kMetrics ++ mpEncHdr false ms.length ++ catMap mpEncMetric ms

/-- protowire.AppendVarint -/
def pbEncVarint : Nat → Nat → Bytes
  | 0, _ => []
  | f + 1, v => if v < 128 then [v] else (v % 128 + 128) :: pbEncVarint f (v / 128)

def pbEncV (v : Nat) : Bytes := pbEncVarint 10 v

def pbEncTag (num typ : Nat) : Bytes := pbEncV (num * 8 + typ)

def pbEncLen (num : Nat) (d : Bytes) : Bytes := pbEncTag num 2 ++ pbEncV d.length ++ d

/-- proto.Marshal (deterministic) of the generated pb.Metric: proto3 omits zero scalars and empty repeated fields;
    map entries always carry key and value; tags are expected in key order -/
def pbEncMetric (m : Metric) : Bytes :=
  (if m.name = [] then [] else pbEncLen 1 m.name)
    ++ catMap (fun t => pbEncLen 2 (pbEncLen 1 t.1 ++ pbEncLen 2 t.2)) m.tags
    ++ (if m.counter = 0 then [] else pbEncTag 3 1 ++ le 8 m.counter)
    ++ (if m.ts = 0 then [] else pbEncTag 4 0 ++ pbEncV m.ts)
    ++ (if m.value = [] then [] else pbEncLen 5 (catMap (le 8) m.value))
    ++ (if m.unique = [] then [] else pbEncLen 6 (catMap pbEncV m.unique))
    ++ catMap (fun h => pbEncLen 7 ((if h.1 = 0 then [] else pbEncTag 1 1 ++ le 8 h.1)
                                     ++ (if h.2 = 0 then [] else pbEncTag 2 1 ++ le 8 h.2))) m.hist

def pbEncBatch (ms : List Metric) : Bytes := catMap (fun m => pbEncLen 13337 (pbEncMetric m)) ms

/-- the content the property talks about: everything but the TL fields mask -/
def sem (m : Metric) : Metric := { m with mask := 0 }

end SH.Wire
