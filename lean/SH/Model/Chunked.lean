/-
  SH.Model.Chunked — executable model of internal/data_model/chunked_storage2.go (property C21).

  File format: file = chunk*, chunk = magic(4, LE) ‖ bodySize(4, LE) ‖ body ‖ hash(16), where
  hash = H(previous chunk's hash ‖ magic ‖ bodySize ‖ body) and the first chunk uses 16 zero bytes.

  `H` (xxh3-128 in the code) is a PARAMETER of every function here (DESIGN §4.7): theorems hold for every `H`,
  the driver instantiates it with a finite table of the hash values the Go harness computed with the real xxh3.

  Modelled branch for branch:
    ReadNext            → `readNext` (pure, on the unread rest of the file) and `stepReadNext` (the stateful wrapper:
                           offset/hash are advanced only by the NEXT call, `ReadAt = nil` after the end was seen)
    ResetToStartOfFile  → `resetToStart`;  StartWriteChunk → `startWrite`
    finishChunk         → `finishChunk` (empty chunk = no-op, writeErr makes it a discarding no-op, WriteAt failure is an input)
    FinishItem          → `finishItem` (write once half of ChunkSize is used, "too big" error)
    FinishWriteChunk    → `finishWrite` (finishChunk + Truncate)
  The `chunk []byte` slice the Go caller appends to is the `pending` field (body bytes only, without the 24 reserved bytes).
  Assumed away: the storage callbacks are those of NewChunkedStorage2Slice (WriteAt only fails when the harness
  injects a failure; ReadAt/Truncate never fail).
-/
import SH.Gen.C21

namespace SH.Chunked

abbrev Bytes := List UInt8

def chunkSize : Nat := SH.Gen.C21.chunkSize
def halfChunk : Nat := chunkSize / 2
def headerSize : Nat := SH.Gen.C21.chunkHeaderSize
def hashSize : Nat := SH.Gen.C21.chunkHashSize
def magicMappings : Nat := SH.Gen.C21.chunkedMagicMappings

def zeroHash : Bytes := List.replicate hashSize 0

/-- `k` little-endian bytes of `n` -/
def le : Nat → Nat → Bytes
  | 0, _ => []
  | k + 1, n => UInt8.ofNat (n % 256) :: le k (n / 256)

def unle : Bytes → Nat
  | [] => 0
  | b :: bs => b.toNat + 256 * unle bs

/-- `magic ‖ bodySize` -/
def header (magic : Nat) (body : Bytes) : Bytes := le 4 magic ++ le 4 body.length

/-- the bytes the hash of a chunk is computed over: previous hash ‖ magic ‖ size ‖ body -/
def hashInput (magic : Nat) (prev body : Bytes) : Bytes := prev ++ (header magic body ++ body)

/-- one chunk as written by `finishChunk` -/
def encChunk (H : Bytes → Bytes) (magic : Nat) (prev body : Bytes) : Bytes :=
  header magic body ++ (body ++ H (hashInput magic prev body))

/-- a whole file: chunks chained through their hashes, starting from `prev` -/
def encodeAll (H : Bytes → Bytes) (magic : Nat) : Bytes → List Bytes → Bytes
  | _, [] => []
  | prev, b :: bs => encChunk H magic prev b ++ encodeAll H magic (H (hashInput magic prev b)) bs

/-! ### reader -/

inductive Err
  | headerOverflow   -- "chunk at %d header overflows file size"
  | badMagic         -- "invalid magic"
  | bodyTooBig       -- "body size overflows hard limit"
  | bodyOverflow     -- "body size overflows file size"
  | wrongHash        -- "has wrong xxhash"
deriving DecidableEq, Repr

def Err.name : Err → String
  | .headerOverflow => "header-overflow"
  | .badMagic => "bad-magic"
  | .bodyTooBig => "body-too-big"
  | .bodyOverflow => "body-overflow"
  | .wrongHash => "wrong-hash"

inductive Next
  | eof
  | err (e : Err)
  | chunk (body stored rest : Bytes)
deriving DecidableEq, Repr

def shortHeader (rest : Bytes) : Bool := rest.length < headerSize + hashSize
def magicOf (rest : Bytes) : Nat := unle (rest.take 4)
def bodySize (rest : Bytes) : Nat := unle ((rest.drop 4).take 4)
def wrongMagic (magic : Nat) (rest : Bytes) : Bool := magicOf rest != magic
def tooBig (rest : Bytes) : Bool := bodySize rest > chunkSize
def bodyOverflows (rest : Bytes) : Bool := headerSize + bodySize rest + hashSize > rest.length
def storedHash (rest : Bytes) : Bytes := (rest.drop (headerSize + bodySize rest)).take hashSize
def hashedPart (rest : Bytes) : Bytes := rest.take (headerSize + bodySize rest)
def hashMismatch (H : Bytes → Bytes) (prev rest : Bytes) : Bool := H (prev ++ hashedPart rest) != storedHash rest

/-- `ReadNext` on the unread part `rest` of the file (`rest = file[offset:initialFileSize]`), `prev` = hash of the previous chunk -/
def readNext (H : Bytes → Bytes) (magic : Nat) (prev rest : Bytes) : Next :=
  if rest.isEmpty then .eof
  else if shortHeader rest then .err .headerOverflow
  else if wrongMagic magic rest then .err .badMagic
  else if tooBig rest then .err .bodyTooBig
  else if bodyOverflows rest then .err .bodyOverflow
  else if hashMismatch H prev rest then .err .wrongHash
  else .chunk ((rest.drop headerSize).take (bodySize rest)) (storedHash rest) (rest.drop (headerSize + bodySize rest + hashSize))

theorem readNext_chunk_lt {H magic prev rest body stored rest'}
    (h : readNext H magic prev rest = .chunk body stored rest') : rest'.length < rest.length := by
  unfold readNext at h
  split at h; · cases h
  rename_i hne
  split at h; · cases h
  split at h; · cases h
  split at h; · cases h
  split at h; · cases h
  split at h; · cases h
  cases h
  have : rest.length ≠ 0 := by
    intro h0; apply hne; simp [List.length_eq_zero_iff.mp h0]
  simp [headerSize, hashSize, SH.Gen.C21.chunkHeaderSize, SH.Gen.C21.chunkHashSize]
  omega

/-- call `ReadNext` until it returns an error or the end of the file: the chunks returned and how it ended -/
def readAll (H : Bytes → Bytes) (magic : Nat) (prev rest : Bytes) : List Bytes × Option Err :=
  match h : readNext H magic prev rest with
  | .eof => ([], none)
  | .err e => ([], some e)
  | .chunk body stored rest' =>
    let r := readAll H magic stored rest'
    (body :: r.1, r.2)
termination_by rest.length
decreasing_by exact readNext_chunk_lt h

/-! ### the storage object -/

structure St where
  file : Bytes := []
  initialSize : Nat := 0
  offset : Nat := 0
  hash : Bytes := zeroHash
  readDone : Bool := false
  nextOffset : Nat := 0
  nextHash : Bytes := zeroHash
  magic : Nat := 0
  writeErr : Bool := false
  pending : Bytes := []
deriving DecidableEq, Repr

/-- `NewChunkedStorage2Slice(&file)` -/
def new (file : Bytes) : St := { file := file, initialSize := file.length }

inductive ReadOut
  | nothing            -- (nil, nil): end of file, or reading already finished
  | err (e : Err)
  | chunk (body : Bytes)
deriving DecidableEq, Repr

def unread (s : St) : Bytes := (s.file.take s.initialSize).drop s.nextOffset

/-- `ReadNext(magic)` -/
def stepReadNext (H : Bytes → Bytes) (magic : Nat) (s : St) : St × ReadOut :=
  if s.readDone then (s, .nothing)
  else
    let s1 := { s with offset := s.nextOffset, hash := s.nextHash }
    match readNext H magic s1.hash (unread s) with
    | .eof => ({ s1 with readDone := true }, .nothing)
    | .err e => (s1, .err e)
    | .chunk body stored _ =>
      ({ s1 with nextOffset := s1.offset + headerSize + body.length + hashSize, nextHash := stored }, .chunk body)

/-- `ResetToStartOfFile()` -/
def resetToStart (s : St) : St := { s with hash := zeroHash, offset := 0, writeErr := false }

/-- `StartWriteChunk(magic, _)`: the returned slice is the empty pending body -/
def startWrite (magic : Nat) (s : St) : St := { s with readDone := true, magic := magic, pending := [] }

/-- `WriteAt(offset, data)` of the slice storage: overwrite / extend (zero filling a gap) -/
def writeAt (f : Bytes) (pos : Nat) (d : Bytes) : Bytes :=
  let g := f ++ List.replicate (pos - f.length) 0
  g.take pos ++ (d ++ g.drop (pos + d.length))

inductive WErr
  | none
  | discarded    -- "chunk storage discarded chunk due to previous write error"
  | writeFailed  -- "chunk storage write error"
  | tooBig       -- "too big item(s)"
deriving DecidableEq, Repr

def WErr.name : WErr → String
  | .none => "ok"
  | .discarded => "discarded"
  | .writeFailed => "write-failed"
  | .tooBig => "too-big"

/-- `finishChunk(chunk)`; `failWrite` = the WriteAt callback returns an error for this call -/
def finishChunk (H : Bytes → Bytes) (failWrite : Bool) (s : St) : St × WErr :=
  if s.pending.isEmpty then (s, .none)
  else if s.writeErr then ({ s with pending := [] }, .discarded)
  else if failWrite then ({ s with pending := [], writeErr := true }, .writeFailed)
  else
    let h := H (hashInput s.magic s.hash s.pending)
    ({ s with file := writeAt s.file s.offset (encChunk H s.magic s.hash s.pending),
              hash := h,
              offset := s.offset + (headerSize + s.pending.length + hashSize),
              pending := [] }, .none)

def belowHalf (s : St) : Bool := s.pending.length < halfChunk
def overFull (s : St) : Bool := s.pending.length > chunkSize

/-- the caller appends `item` to the chunk, then `FinishItem(chunk)` -/
def finishItem (H : Bytes → Bytes) (failWrite : Bool) (item : Bytes) (s : St) : St × WErr :=
  let s1 := { s with pending := s.pending ++ item }
  if belowHalf s1 then (s1, .none)
  else if overFull s1 then (s1, .tooBig)
  else finishChunk H failWrite s1

/-- `FinishWriteChunk(chunk)` -/
def finishWrite (H : Bytes → Bytes) (failWrite : Bool) (s : St) : St × WErr :=
  let r := finishChunk H failWrite s
  if r.2 != .none then r
  else ({ r.1 with file := r.1.file.take r.1.offset }, .none)

/-! ### helpers for drivers (no part of the model proper) -/

/-- adler32, used to print large byte strings compactly -/
def adler32 (b : Bytes) : Nat :=
  let r := b.foldl (fun (acc : Nat × Nat) x =>
    let a := (acc.1 + x.toNat) % 65521
    (a, (acc.2 + a) % 65521)) (1, 0)
  r.2 * 65536 + r.1

end SH.Chunked
