/-
  SH.Model.Insert — model of the aggregator insert path (property C03).

  Code modelled, branch for branch:
    internal/vkgo/kittenhouseclient/rowbinary   AppendString (uvarint + bytes), AppendCentroids, AppendEmptyCentroids,
                                                AppendEmptyUnique, AppendArgMinMaxStringEmpty
    internal/aggregator/aggregator_insert.go    appendKeys (appendTag), appendAggregates, multiValueMarshal, appendHosts,
                                                appendArgMinMaxTag, the row loop of rowDataMarshalAppendPositions.insertItem
    internal/chutil/arg_minmax_string.go        AppendArgMinMaxBytesFloat32, ColArgMin/MaxStringFloat32.DecodeColumn
    internal/data_model/ch_arg_minmax_string.go ArgMinMaxStringFloat32.ReadFrom
    internal/chutil/tdigest.go                  ColTDigest.DecodeColumn (the byte reader; the digest itself is hrissan/tdigest)
    internal/chutil/unique.go + ch_unique.go    ColUnique.DecodeColumn / ChUnique.ReadFrom, ChUnique.MarshallAppend
    internal/chutil/tdigest.go, unique.go       ColTDigest / ColUnique Reset + DecodeColumn over several result blocks (objects by reference)
    internal/data_model/transfer.go             KeyFromStatshouseMultiItem, MergeWithTLMultiItem, MergeWithTL2, MergeWithTLItem2
    internal/data_model/bucket.go               GetOrCreateMultiItem (identity = Key.MarshalAppend bytes), MapStringTopBytes,
                                                FinishStringTop, MultiValue.Merge, ItemValue.Merge
    internal/data_model/max_host_probability.go ItemCounter.AddCounterHost / Merge

  Numbers (DESIGN §4.1): values are integers, counters / sums / sums of squares are multiples of 1/4 stored ×4
  (`cnt`, `sum`, `sumsq` are in quarter units); `f64bits m e` is the IEEE-754 binary64 image of m / 2^e, exact for
  |m| < 2^53. float32 images of host values are inputs (bit patterns), see below.

  Inputs of the model that are outputs of external components (DESIGN §4.2, §4.3):
    * the random draw of AddCounterHost: the model keeps the SET of hosts MaxCounterHostTag may hold (`chosts`);
      the row encoder is given the host the real code ended with and checks membership;
    * SkewMinMaxHost / SkewMaxCounterHost (rng.Float64 products): the three float32 bit patterns written after the hosts;
    * hrissan/tdigest: the centroid list `ValueTDigest.Centroids()` (float64 bit patterns) is an input of the row encoder;
    * the open-addressing table of ChUnique: the order of its non-zero slots is an input (checked to be a permutation
      of the model's set).
  Not modelled: sampling (insert budget binds), `resample` of string tops (needs AggregatorStringTopCapacity = 1000
  distinct tops in one key), built-in (negative) metrics and their badges, the mapping of unknown string tags.
-/
import SH.Model.Core
import SH.Model.Unique
import SH.Gen.C03

namespace SH.Insert

abbrev Bytes := List UInt8

/-! ### little-endian integers and uvarint -/

def byte (n : Nat) : UInt8 := UInt8.ofNat (n % 256)

def u32le (n : Nat) : Bytes := [byte n, byte (n / 256), byte (n / 65536), byte (n / 16777216)]

def u64le (n : Nat) : Bytes := u32le (n % 4294967296) ++ u32le (n / 4294967296)

/-- uint32(int32 x) -/
def i32 (x : Int) : Nat := (x % 4294967296).toNat

/-- int32(uint32 n) -/
def toI32 (n : Nat) : Int := if n < 2147483648 then (n : Int) else (n : Int) - 4294967296

def readU32 : Bytes → Option (Nat × Bytes)
  | a :: b :: c :: d :: rest => some (a.toNat + 256 * b.toNat + 65536 * c.toNat + 16777216 * d.toNat, rest)
  | _ => none

/-- binary.PutUvarint (fuel = MaxVarintLen64 = 10 bytes is enough for a uint64) -/
def uvarintF : Nat → Nat → Bytes
  | 0, _ => []
  | f + 1, n => if n < 128 then [byte n] else byte (n % 128 + 128) :: uvarintF f (n / 128)

def uvarint (n : Nat) : Bytes := uvarintF 10 n

/-- binary.ReadUvarint: at most 10 bytes, the 10th may only be 0 or 1 (`f` = bytes still allowed, `s` = shift, `x` = accumulator) -/
def readUvarintAux : Nat → Nat → Nat → Bytes → Option (Nat × Bytes)
  | 0, _, _, _ => none
  | _ + 1, _, _, [] => none
  | f + 1, s, x, b :: rest =>
    if b.toNat < 128 then
      (if f = 0 ∧ 1 < b.toNat then none else some (x + b.toNat * 2 ^ s, rest))
    else readUvarintAux f (s + 7) (x + (b.toNat - 128) * 2 ^ s) rest

def readUvarint (bs : Bytes) : Option (Nat × Bytes) := readUvarintAux 10 0 0 bs

/-- rowbinary.AppendString -/
def rbString (s : Bytes) : Bytes := uvarint s.length ++ s

/-! ### floating point images -/

/-- IEEE-754 binary64 bit pattern of m / 2^e (exact for |m| < 2^53 and results in the normal range) -/
def f64bits (m : Int) (e : Nat) : Nat :=
  if m = 0 then 0 else
    let a := m.natAbs
    let l := Nat.log2 a
    let sign := if m < 0 then 2 ^ 63 else 0
    let mant := if l ≤ 52 then a * 2 ^ (52 - l) else a / 2 ^ (l - 52)
    sign + (l + 1023 - e) * 2 ^ 52 + (mant - 2 ^ 52)

/-- counters, sums: quarter units -/
def f64q (q : Int) : Bytes := u64le (f64bits q 2)
/-- values: integers -/
def f64i (v : Int) : Bytes := u64le (f64bits v 0)

/-- float32(float64) on bit patterns, round to nearest even; float32-subnormal results are not modelled (marker 0x7fffffff) -/
def f64to32 (b : Nat) : Nat :=
  let sign := b / 2 ^ 63
  let ex := b / 2 ^ 52 % 2048
  let man := b % 2 ^ 52
  if ex = 0 then sign * 2 ^ 31
  else if ex = 2047 then sign * 2 ^ 31 + 255 * 2 ^ 23 + (if man = 0 then 0 else 2 ^ 22 + man / 2 ^ 29)
  else if ex ≤ 896 then 2147483647
  else
    let m := 2 ^ 52 + man
    let q := m / 2 ^ 29
    let r := m % 2 ^ 29
    let q' := if 2 ^ 28 < r ∨ (r = 2 ^ 28 ∧ q % 2 = 1) then q + 1 else q
    let bits := (ex - 897) * 2 ^ 23 + q'
    if 255 * 2 ^ 23 ≤ bits then sign * 2 ^ 31 + 255 * 2 ^ 23 else sign * 2 ^ 31 + bits

/-! ### tags, keys -/

/-- data_model.TagUnion -/
structure Tag where
  i : Int
  s : Bytes
deriving DecidableEq, Repr, Inhabited

def Tag.none : Tag := ⟨0, []⟩
def Tag.empty (t : Tag) : Bool := t.i == 0 && t.s.isEmpty
/-- TagUnion.Normalize -/
def Tag.normalize (t : Tag) : Tag := if t.i != 0 then ⟨t.i, []⟩ else t

/-- `if I != 0 || S == ""` of appendTag -/
def prefersInt (t : Tag) : Bool := t.i != 0 || t.s.isEmpty

/-- appendTag (inside appendKeys) -/
def encTag (t : Tag) : Bytes :=
  if prefersInt t then u32le (i32 t.i) ++ [0] else u32le 0 ++ rbString t.s

def dropTrailing {β : Type} (p : β → Bool) (l : List β) : List β := (l.reverse.dropWhile p).reverse

/-- data_model.Key; identity of a MultiItem in its map is the byte string Key.MarshalAppend writes: timestamp, metric,
    tags without trailing zeros, stags without trailing empty strings -/
structure Key where
  ts : Nat
  metric : Int
  tags : List Int
  stags : List Bytes
deriving DecidableEq, Repr, Inhabited

def mkKey (ts : Nat) (metric : Int) (tags : List Int) (stags : List Bytes) : Key :=
  { ts := ts, metric := metric,
    tags := dropTrailing (· == 0) (tags.take Gen.C03.maxTags),
    stags := dropTrailing (·.isEmpty) (stags.take Gen.C03.maxTags) }

def slot (k : Key) (i : Nat) : Tag := ⟨k.tags.getD i 0, k.stags.getD i []⟩

/-- the tag columns written by appendKeys: every index except StringTopTagIndexV3 -/
def keySlots : List Nat := (List.range Gen.C03.maxTags).filter (· != Gen.C03.stringTopIndex)

/-- appendKeys -/
def encKeys (k : Key) (top : Tag) : Bytes :=
  [0] ++ u32le (i32 k.metric) ++ u32le k.ts ++ keySlots.flatMap (fun i => encTag (slot k i)) ++ encTag top

/-- KeyFromStatshouseMultiItem: the row's own timestamp if it is inside the believe window, else the bucket time -/
def keyTime (t : Option Nat) (bucketTs : Nat) : Nat :=
  match t with
  | Option.none => bucketTs
  | some t =>
    if bucketTs < t then bucketTs
    else if (t : Int) < (bucketTs : Int) - (Gen.C03.believeWindow : Int) then bucketTs
    else t

/-! ### argMin/argMax(String, Float32) state -/

/-- the `arg` bytes handed to AppendArgMinMaxBytesFloat32: marker 0 + int32, or marker 1 + string -/
def argPayload (t : Tag) : Bytes := if t.i != 0 then 0 :: u32le (i32 t.i) else 1 :: t.s

/-- rowbinary.AppendArgMinMaxStringEmpty -/
def encArgEmpty : Bytes := [255, 255, 255, 255, 0]

/-- appendArgMinMaxTag; `v` = float32 bit pattern -/
def encArg (t : Tag) (v : Nat) : Bytes :=
  if t.empty then encArgEmpty
  else u32le ((argPayload t).length + 1) ++ argPayload t ++ [0, 1] ++ u32le v

/-- data_model.ArgMinMaxStringFloat32 -/
structure ArgVal where
  s : Bytes
  i : Int
  v : Nat
deriving DecidableEq, Repr, Inhabited

def ArgVal.zero : ArgVal := ⟨[], 0, 0⟩

/-- `.reset`: ReadFrom starts from the zero value; `.stale`: ReadFrom only overwrites the fields present in the bytes,
    the rest keeps what the slot held before (the column object is reused between result blocks) -/
inductive ArgV | reset | stale
deriving DecidableEq, Repr

def splitAt? (n : Nat) (bs : Bytes) : Option (Bytes × Bytes) :=
  if bs.length < n then Option.none else some (bs.take n, bs.drop n)

/-- the value part of ReadFrom: flag byte, then float32 if the flag is not 0 -/
def readArgValue (a : ArgVal) (bs : Bytes) : Option (ArgVal × Bytes) :=
  match bs with
  | [] => Option.none
  | flag :: rest =>
    if flag = 0 then some (a, rest)
    else match readU32 rest with
      | some (v, rest') => some ({ a with v := v }, rest')
      | Option.none => Option.none

/-- the string branch: len-2 bytes, then a zero terminator -/
def readArgString (a : ArgVal) (len : Nat) (bs : Bytes) : Option (ArgVal × Bytes) :=
  if len < 2 then Option.none
  else match splitAt? (len - 2) bs with
    | Option.none => Option.none
    | some (str, rest) =>
      match rest with
      | [] => Option.none
      | term :: rest' => if term = 0 then some ({ a with s := str }, rest') else Option.none

/-- the int branch: int32, then len-5 bytes skipped (read errors ignored) -/
def readArgInt (a : ArgVal) (len : Nat) (bs : Bytes) : Option (ArgVal × Bytes) :=
  match readU32 bs with
  | Option.none => Option.none
  | some (n, rest) => some ({ a with i := toI32 n }, rest.drop (len - 5))

def hasArg (len : Nat) : Bool := len != 4294967295 && decide (0 < len)

def readArgBody (a : ArgVal) (len : Nat) (bs : Bytes) : Option (ArgVal × Bytes) :=
  if hasArg len then
    match bs with
    | [] => Option.none
    | flag :: rest => if flag = 1 then readArgString a len rest else readArgInt a len rest
  else some (a, bs)

/-- ArgMinMaxStringFloat32.ReadFrom into a slot that held `prev` -/
def readArg (var : ArgV) (prev : ArgVal) (bs : Bytes) : Option (ArgVal × Bytes) :=
  let start := match var with
    | .reset => ArgVal.zero
    | .stale => prev
  match readU32 bs with
  | Option.none => Option.none
  | some (len, rest) =>
    match readArgBody start len rest with
    | Option.none => Option.none
    | some (a, rest') => readArgValue a rest'

/-- ColArgMin/MaxStringFloat32.DecodeColumn(r, rows) on a column whose reused slots hold `prev` (missing slots are fresh) -/
def readArgCol (var : ArgV) : Nat → List ArgVal → Bytes → Option (List ArgVal × Bytes)
  | 0, _, bs => some ([], bs)
  | n + 1, prev, bs =>
    match readArg var (prev.headD ArgVal.zero) bs with
    | Option.none => Option.none
    | some (a, rest) =>
      match readArgCol var n prev.tail rest with
      | Option.none => Option.none
      | some (as, rest') => some (a :: as, rest')

/-- what a written host must read back as -/
def argOfTag (t : Tag) (v : Nat) : ArgVal :=
  if t.empty then ArgVal.zero else if t.i != 0 then ⟨[], toI32 (i32 t.i), v⟩ else ⟨t.s, 0, v⟩

/-! ### quantilesTDigest state -/

/-- rowbinary.AppendCentroids with the float32 images already computed: count, then (mean, weight) pairs -/
def encCentroids32 (cs : List (Nat × Nat)) : Bytes :=
  uvarint cs.length ++ cs.flatMap (fun c => u32le c.1 ++ u32le c.2)

/-- rowbinary.AppendCentroids for sampleFactor = 1 (x * 1 = x): float32(Mean), float32(Weight) of every centroid (float64 bit patterns) -/
def encCentroids (cs : List (Nat × Nat)) : Bytes :=
  encCentroids32 (cs.map (fun c => (f64to32 c.1, f64to32 c.2)))

def readPairs : Nat → Bytes → Option (List (Nat × Nat) × Bytes)
  | 0, bs => some ([], bs)
  | n + 1, bs =>
    match readU32 bs with
    | Option.none => Option.none
    | some (m, r1) =>
      match readU32 r1 with
      | Option.none => Option.none
      | some (w, r2) =>
        match readPairs n r2 with
        | Option.none => Option.none
        | some (l, r3) => some ((m, w) :: l, r3)

/-- the byte reader of ColTDigest.DecodeColumn for one row: the centroids handed to AddCentroid -/
def readCentroids (bs : Bytes) : Option (List (Nat × Nat) × Bytes) :=
  match readUvarint bs with
  | Option.none => Option.none
  | some (n, rest) => readPairs n rest

/-! ### uniq state -/

/-- the fields of ChUnique that reach the wire; `vals` = non-zero slots of buf in table order -/
structure USt where
  alloc : Bool
  k : Nat
  cnt : Nat
  hasZero : Bool
  vals : List Nat
deriving DecidableEq, Repr, Inhabited

/-- ChUnique.MarshallAppend -/
def encUnique (u : USt) : Bytes :=
  if u.alloc then
    [byte u.k] ++ uvarint u.cnt ++ (if u.hasZero then u32le 0 else []) ++ u.vals.flatMap u32le
  else [0, 0]

def readWords : Nat → Bytes → Option (List Nat × Bytes)
  | 0, bs => some ([], bs)
  | n + 1, bs =>
    match readU32 bs with
    | Option.none => Option.none
    | some (x, r1) =>
      match readWords n r1 with
      | Option.none => Option.none
      | some (l, r2) => some (x :: l, r2)

/-- ChUnique.ReadFrom (ColUnique.DecodeColumn, one row): skipDegree, itemsCount (rejected above uniquesHashMaxSize),
    the values; a zero value sets hasZeroItem, the others are re-inserted into a fresh table -/
def readUnique (bs : Bytes) : Option (USt × Bytes) :=
  match bs with
  | [] => Option.none
  | sd :: r0 =>
    match readUvarint r0 with
    | Option.none => Option.none
    | some (ic, r1) =>
      if Gen.C03.uniqMaxSize < ic then Option.none
      else match readWords ic r1 with
        | Option.none => Option.none
        | some (xs, r2) =>
          some ({ alloc := true, k := sd.toNat, cnt := ic, hasZero := xs.any (· == 0), vals := xs.filter (· != 0) }, r2)

/-! ### result columns that hand out references: ColTDigest ([]*tdigest.TDigest), ColUnique ([]ChUnique, tables by reference)

  ch-go drives one column object through every block of a result: `Reset()`, then `DecodeColumn(r, rows)`. The API keeps
  what a block handed out (`dst.percentile = c.percentile[x]`, `dst.unique = c.unique[x]`) while later blocks are decoded.
  Objects live in a heap addressed by allocation index; the column's backing array holds references. -/

/-- `Reset()` of the column: `.drop` = `*col = nil` (the code), `.keep` = `*col = (*col)[:0]` (backing array and its objects stay) -/
inductive ResetV | drop | keep
deriving DecidableEq, Repr

/-- store one decoded value through a slot: a slot that already references an object which can take the value is refilled
    IN PLACE (`res[i].Reset()` + AddCentroid / ReadFrom into the old table), otherwise a new object is allocated -/
def storeSlot {α : Type} (reuse : α → α → Bool) (heap : List α) (slot : Option Nat) (v : α) : List α × Nat :=
  match slot with
  | some r =>
    match heap[r]? with
    | some old => if reuse old v then (heap.set r v, r) else (heap ++ [v], heap.length)
    | Option.none => (heap ++ [v], heap.length)
  | Option.none => (heap ++ [v], heap.length)

/-- DecodeColumn over the offered slots: the new heap and the references handed out for the rows of this block -/
def decodeBlock {α : Type} (reuse : α → α → Bool) : List α → List (Option Nat) → List α → List α × List Nat
  | heap, _, [] => (heap, [])
  | heap, slots, v :: vs =>
    let r := storeSlot reuse heap slots.head?.join v
    let q := decodeBlock reuse r.1 slots.tail vs
    (q.1, r.2 :: q.2)

/-- the slots DecodeColumn(rows) works on after Reset(): none when the backing array was dropped or is too short (`make`) -/
def offered (rv : ResetV) (backing : List (Option Nat)) (rows : Nat) : List (Option Nat) :=
  match rv with
  | .drop => []
  | .keep => if backing.length < rows then [] else backing

structure ColState (α : Type) where
  heap : List α
  backing : List (Option Nat)
  retained : List Nat        -- references the reader kept, block after block

def ColState.init {α : Type} : ColState α := ⟨[], [], []⟩

/-- one result block: Reset, DecodeColumn, the reader keeps every reference of the block -/
def colBlock {α : Type} (rv : ResetV) (reuse : α → α → Bool) (st : ColState α) (vs : List α) : ColState α :=
  let off := offered rv st.backing vs.length
  let r := decodeBlock reuse st.heap off vs
  { heap := r.1, backing := r.2.map some ++ off.drop vs.length, retained := st.retained ++ r.2 }

def colBlocks {α : Type} (rv : ResetV) (reuse : α → α → Bool) (blocks : List (List α)) : ColState α :=
  blocks.foldl (colBlock rv reuse) ColState.init

/-- what the reader sees in the rows it kept, after the last block -/
def readBack {α : Type} (st : ColState α) : List (Option α) := st.retained.map (fun r => st.heap[r]?)

/-- a *tdigest.TDigest slot is always refilled in place -/
def tdReuse (_ _ : List (Nat × Nat)) : Bool := true

/-- one block of a percentile column: `rows` centroid lists -/
def readCentroidsCol : Nat → Bytes → Option (List (List (Nat × Nat)) × Bytes)
  | 0, bs => some ([], bs)
  | n + 1, bs =>
    match readCentroids bs with
    | Option.none => Option.none
    | some (c, r1) =>
      match readCentroidsCol n r1 with
      | Option.none => Option.none
      | some (l, r2) => some (c :: l, r2)

/-- one block of a uniq column -/
def readUniqueCol : Nat → Bytes → Option (List USt × Bytes)
  | 0, bs => some ([], bs)
  | n + 1, bs =>
    match readUnique bs with
    | Option.none => Option.none
    | some (u, r1) =>
      match readUniqueCol n r1 with
      | Option.none => Option.none
      | some (l, r2) => some (u :: l, r2)


/-! ### ItemValue / MultiValue and the merge of one TL value (MergeWithTL2) -/

/-- ItemValue; `chosts` is the set of values MaxCounterHostTag may hold (one element unless a random draw happened) -/
structure IV where
  cnt : Int
  chosts : List Tag
  vmin : Int
  vmax : Int
  sum : Int
  sumsq : Int
  minHost : Tag
  maxHost : Tag
  set : Bool
deriving DecidableEq, Repr, Inhabited

def IV.zero : IV := ⟨0, [Tag.none], 0, 0, 0, 0, Tag.none, Tag.none, false⟩

def addHost (l : List Tag) (h : Tag) : List Tag := if l.contains h then l else l ++ [h]

/-- ItemCounter.AddCounterHost: when both counters are positive and the hosts differ the new host wins a random draw -/
def addCounterHost (s : IV) (c : Int) (h : Tag) : IV :=
  if c ≤ 0 then s
  else if s.cnt ≤ 0 then { s with chosts := [h], cnt := c }
  else { s with chosts := addHost s.chosts h, cnt := s.cnt + c }

/-- ItemCounter.Merge -/
def mergeCounter (s o : IV) : IV :=
  if o.cnt ≤ 0 then s
  else if s.cnt ≤ 0 then { s with chosts := o.chosts, cnt := o.cnt }
  else { s with chosts := o.chosts.foldl addHost s.chosts, cnt := s.cnt + o.cnt }

def takesMin (s : IV) (v : Int) : Bool := !s.set || decide (v < s.vmin)
def takesMax (s : IV) (v : Int) : Bool := !s.set || decide (s.vmax < v)

/-- the aggregate part of ItemValue.MergeWithTLItem2 / ItemValue.Merge: sums added, min/max (and their hosts) replaced
    only by a strictly smaller/larger value -/
def mergeAgg (s : IV) (mn mx sm sq : Int) (minH maxH : Tag) : IV :=
  { s with
    sum := s.sum + sm, sumsq := s.sumsq + sq,
    vmin := if takesMin s mn then mn else s.vmin,
    minHost := if takesMin s mn then minH else s.minHost,
    vmax := if takesMax s mx then mx else s.vmax,
    maxHost := if takesMax s mx then maxH else s.maxHost,
    set := true }

/-- ItemValue.Merge -/
def ivMerge (s o : IV) : IV :=
  let s1 := mergeCounter s o
  if o.set then mergeAgg s1 o.vmin o.vmax o.sum o.sumsq o.minHost o.maxHost else s1

/-- MultiValue: ItemValue + `ValueTDigest != nil` + everything handed to ValueTDigest.Add (value, count×4) + the sketch -/
structure MV where
  v : IV
  dg : Bool
  adds : List (Int × Int)
  u : Unique.Sk
deriving DecidableEq, Repr

def MV.zero : MV := ⟨IV.zero, false, [], Unique.nilSk⟩
instance : Inhabited MV := ⟨MV.zero⟩
/-- MultiValue.Empty -/
def MV.isEmpty (m : MV) : Bool := decide (m.v.cnt ≤ 0)

def UP : Unique.Params := { bits := 32, maxDeg := Gen.C03.uniqMaxDegree, initDeg := Gen.C03.uniqInitDegree }

/-- MultiValue.Merge (used by FinishStringTop) -/
def mvMerge (s o : MV) : MV :=
  { v := ivMerge s.v o.v, dg := s.dg || o.dg, adds := s.adds ++ o.adds, u := Unique.merge .chGood UP s.u o.u }

/-- tlstatshouse.MultiValueBytes with its field mask -/
structure TLV where
  mask : Nat
  counter : Int           -- ×4
  vmin : Int
  vmax : Int
  sum : Int               -- ×4
  sumsq : Int             -- ×4
  uniques : Bytes
  cents : List (Int × Int)  -- (value, count), float32 integers
  maxHostTag : Int
  minHostTag : Int
  cntHostTag : Int
  maxHostStag : Bytes
  minHostStag : Bytes
  cntHostStag : Bytes
deriving DecidableEq, Repr, Inhabited

def bit (mask n : Nat) : Bool := mask / 2 ^ n % 2 == 1

open Gen.C03 in
/-- step 1 of MergeWithTL2: `if IsSetCounterEq1 { Counter = 1 }` -/
def tlCounter (t : TLV) : Int := if bit t.mask bitCounterEq1 then 4 else t.counter

/-- step 2 of MergeWithTL2, ONE function for the three parallel blocks (max host, min host, max-count host):
    neither `*_host_tag` nor `*_host_stag` present → `dflt`; present but empty (id 0 and `probe` empty) → the sending agent's
    `host` when `subst` (min / max-count: "explicitly empty, agent had no host for it while it had one for max");
    otherwise the host as sent. `probe` is the string the emptiness test reads — the block's own `*_host_stag`. -/
def restoreHost (subst setI setS : Bool) (i : Int) (s probe : Bytes) (dflt host : Tag) : Tag :=
  if !setI && !setS then dflt
  else if subst && i == 0 && probe.isEmpty then host
  else ⟨i, s⟩

/-- `.repo`: the code; `.minSlip`: the emptiness test of the MIN block reads `MaxHostStag` (one-token slip between the
    parallel blocks) -/
inductive HostV | repo | minSlip
deriving DecidableEq, Repr

open Gen.C03 in
/-- max host: absent → the sending agent's host (no substitution of an explicitly empty one) -/
def tlMaxHost (t : TLV) (host : Tag) : Tag :=
  restoreHost false (bit t.mask bitMaxHostTag) (bit t.mask bitMaxHostStag) t.maxHostTag t.maxHostStag t.maxHostStag host host

open Gen.C03 in
/-- min host: absent → the (restored) max host -/
def tlMinHostV (v : HostV) (t : TLV) (host : Tag) : Tag :=
  restoreHost true (bit t.mask bitMinHostTag) (bit t.mask bitMinHostStag) t.minHostTag t.minHostStag
    (match v with | .repo => t.minHostStag | .minSlip => t.maxHostStag) (tlMaxHost t host) host

def tlMinHost (t : TLV) (host : Tag) : Tag := tlMinHostV .repo t host

open Gen.C03 in
/-- max-count host: absent → the (restored) max host -/
def tlCntHost (t : TLV) (host : Tag) : Tag :=
  restoreHost true (bit t.mask bitCntHostTag) (bit t.mask bitCntHostStag) t.cntHostTag t.cntHostStag t.cntHostStag
    (tlMaxHost t host) host

open Gen.C03 in
/-- the compact form: without value_max the aggregator restores max, sum and sum of squares from min and counter -/
def tlFull (t : TLV) : Bool := bit t.mask bitValueMax
def tlMax (t : TLV) : Int := if tlFull t then t.vmax else t.vmin
/-- sum ×4 = min · counter×4 -/
def tlSum (t : TLV) : Int := if tlFull t then t.sum else t.vmin * tlCounter t
def tlSumSq (t : TLV) : Int := if tlFull t then t.sumsq else t.vmin * tlCounter t * t.vmin

/-- the wire image of an incoming sketch (ChUnique.MergeRead / UmMarshall read it from a bytes.Buffer) -/
def parseUnique (bs : Bytes) : Option Unique.Wire :=
  match readUnique bs with
  | some (u, _) => some { k := u.k, ic := u.cnt, xs := (if u.hasZero then [0] else []) ++ u.vals }
  | Option.none => Option.none

/-- `if len(s2.Uniques) != 0 { _ = s.HLL.MergeRead(...) }`; only well-formed images are modelled -/
def mergeUniques (u : Unique.Sk) (bs : Bytes) : Unique.Sk :=
  if bs.isEmpty then u
  else match parseUnique bs with
    | some w => Unique.mergeRead .adopt .clamp UP u w
    | Option.none => u

/-- the centroid loop: zero counts skipped, a negative count is an ingestion error that ends the merge of this value -/
def addCentroids (adds : List (Int × Int)) : List (Int × Int) → List (Int × Int) × Bool
  | [] => (adds, false)
  | (x, c) :: rest =>
    if c = 0 then addCentroids adds rest
    else if c < 0 then (adds, true)
    else addCentroids (adds ++ [(x, 4 * c)]) rest

/-- ingestion status of one merged value: 0, or 1 = negative counter -/
abbrev Err := Nat

open Gen.C03 in
/-- MultiValue.MergeWithTL2 (values inside the float32 range: only a negative counter can fail validation) -/
def mergeTL2 (m : MV) (t : TLV) (host : Tag) : MV × Err :=
  let c := tlCounter t
  if c = 0 then (m, 0)
  else if c < 0 then (m, 1)
  else
    let m1 : MV := { m with v := addCounterHost m.v c (tlCntHost t host), u := mergeUniques m.u t.uniques }
    if !bit t.mask bitValueSet then (m1, 0)
    else
      let m2 : MV := { m1 with v := mergeAgg m1.v t.vmin (tlMax t) (tlSum t) (tlSumSq t) (tlMinHost t host) (tlMaxHost t host) }
      let r := addCentroids m2.adds t.cents
      let m3 : MV := if t.cents.isEmpty then m2 else { m2 with dg := true, adds := r.1 }
      if !t.cents.isEmpty && r.2 then (m3, 1)
      else if bit t.mask bitImplicitCentroid then ({ m3 with dg := true, adds := m3.adds ++ [(t.vmin, c)] }, 0)
      else (m3, 0)

/-! ### MultiItem, the aggregation shards of one bucket -/

structure Item where
  tail : MV
  top : List (Tag × MV)
deriving DecidableEq, Repr

def Item.zero : Item := ⟨MV.zero, []⟩
instance : Inhabited Item := ⟨Item.zero⟩

def topFind (top : List (Tag × MV)) (t : Tag) : Option MV := (top.find? (·.1 == t)).map (·.2)

def topSet (top : List (Tag × MV)) (t : Tag) (m : MV) : List (Tag × MV) :=
  if top.any (·.1 == t) then top.map (fun p => if p.1 == t then (t, m) else p) else top ++ [(t, m)]

/-- MapStringTopBytes below AggregatorStringTopCapacity, then MergeWithTL2 on the chosen MultiValue -/
def mergeTop (it : Item) (tag : Tag) (t : TLV) (host : Tag) : Item × Err :=
  if tag.empty then
    let r := mergeTL2 it.tail t host
    ({ it with tail := r.1 }, r.2)
  else
    let tg := tag.normalize
    let r := mergeTL2 ((topFind it.top tg).getD MV.zero) t host
    ({ it with top := topSet it.top tg r.1 }, r.2)

/-- the loop over s2.Top of MergeWithTLMultiItem: stops at the first ingestion error -/
def mergeTops (it : Item) (host : Tag) : List (Tag × TLV) → Item × Err
  | [] => (it, 0)
  | (tag, t) :: rest =>
    let r := mergeTop it tag t host
    if r.2 != 0 then r else mergeTops r.1 host rest

/-- MultiItem.MergeWithTLMultiItem -/
def mergeItem (it : Item) (tops : List (Tag × TLV)) (tail : TLV) (host : Tag) : Item × Err :=
  let r := mergeTops it host tops
  if r.2 != 0 then r
  else
    let q := mergeTL2 r.1.tail tail host
    ({ r.1 with tail := q.1 }, q.2)

/-- one aggregatorBucket: all 256 shards as one key → item map (a key lives in exactly one shard, chosen by its hash) -/
abbrev Shards := List (Key × Item)

def findItem (sh : Shards) (k : Key) : Option Item := (sh.find? (·.1 == k)).map (·.2)

def setItem (sh : Shards) (k : Key) (it : Item) : Shards :=
  if sh.any (·.1 == k) then sh.map (fun p => if p.1 == k then (k, it) else p) else sh ++ [(k, it)]

/-- GetOrCreateMultiItem + MergeWithTLMultiItem for one received row; returns `created` and the ingestion status -/
def contribute (sh : Shards) (k : Key) (tops : List (Tag × TLV)) (tail : TLV) (host : Tag) : Shards × Bool × Err :=
  let created := (findItem sh k).isNone
  let r := mergeItem ((findItem sh k).getD Item.zero) tops tail host
  (setItem sh k r.1, created, r.2)

/-! ### insert: FinishStringTop and the rows of the body -/

def insertDesc (p : Tag × MV) : List (Tag × MV) → List (Tag × MV)
  | [] => [p]
  | q :: rest => if q.2.v.cnt < p.2.v.cnt then p :: q :: rest else q :: insertDesc p rest

/-- sort.Slice by counter, descending (ties: insertion order here, unspecified in Go) -/
def sortDesc (top : List (Tag × MV)) : List (Tag × MV) := top.foldl (fun acc p => insertDesc p acc) []

/-- FinishStringTop: everything beyond `cap` largest tops is merged into Tail -/
def finishTop (cap : Nat) (it : Item) : Item :=
  let s := sortDesc it.top
  { tail := (s.drop cap).foldl (fun t p => mvMerge t p.2) it.tail, top := s.take cap }

/-- the inputs of the row encoder that come from outside the model -/
structure RowObs where
  chost : Tag               -- MaxCounterHostTag the real item ended with
  cents : List (Nat × Nat)  -- ValueTDigest.Centroids(), float64 bit patterns
  skewMin : Nat             -- float32(SkewMinMaxHost(rng, ValueMin))
  skewMax : Nat
  skewCnt : Nat             -- float32(SkewMaxCounterHost(rng, count))
  uorder : List Nat         -- non-zero slots of HLL.buf in table order
deriving Repr, Inhabited

def sortNat (l : List Nat) : List Nat := (l.toArray.qsort (· < ·)).toList

/-- the sketch's wire fields, with the table order supplied -/
def ustOf (u : Unique.Sk) (order : List Nat) : USt :=
  { alloc := u.alloc, k := u.k, cnt := u.cnt, hasZero := Unique.has UP u 0, vals := order }

/-- appendAggregates: count, max_count, min, max, sum, sumsquare -/
def encAggregates (v : IV) : Bytes :=
  if v.set then f64q v.cnt ++ f64q v.cnt ++ f64i v.vmin ++ f64i v.vmax ++ f64q v.sum ++ f64q v.sumsq
  else f64q v.cnt ++ f64q v.cnt ++ f64i 0 ++ f64i 0 ++ f64i 0 ++ f64i 0

/-- appendHosts for a metric without skip flags -/
def encHosts (v : IV) (o : RowObs) : Bytes :=
  (if v.set && !v.minHost.empty then encArg v.minHost o.skewMin else encArgEmpty) ++
  (if v.set && !v.maxHost.empty then encArg v.maxHost o.skewMax else encArgEmpty) ++
  (if !o.chost.empty then encArg o.chost o.skewCnt else encArgEmpty)

/-- multiValueMarshal with sf = 1 -/
def encValue (m : MV) (o : RowObs) : Bytes :=
  encAggregates m.v ++ (if m.dg then encCentroids o.cents else [0]) ++ encUnique (ustOf m.u o.uorder) ++ encHosts m.v o

/-- the external inputs are consistent with the model's state -/
def obsOk (m : MV) (o : RowObs) : Bool :=
  m.v.chosts.contains o.chost && (sortNat o.uorder == sortNat (Unique.nonZero UP m.u)) && (m.dg || o.cents.isEmpty)

/-- the rows insertItem writes for one item: the tail if not empty, then every non-empty top -/
def itemRows (k : Key) (it : Item) : List (Key × Tag × MV) :=
  (if it.tail.isEmpty then [] else [(k, Tag.none, it.tail)]) ++
  (it.top.filter (fun p => !p.2.isEmpty)).map (fun p => (k, p.1, p.2))

/-- all rows of one bucket after FinishStringTop(cap) -/
def bucketRows (cap : Nat) (sh : Shards) : List (Key × Tag × MV) :=
  sh.flatMap (fun p => itemRows p.1 (finishTop cap p.2))

/-- ties at the capacity boundary make FinishStringTop's choice depend on Go's unstable sort -/
def hasTie (cap : Nat) (it : Item) : Bool :=
  let s := sortDesc it.top
  decide (cap < s.length) && (s.zip s.tail).any (fun p => p.1.2.v.cnt == p.2.2.v.cnt)

end SH.Insert
