/-
  SH.Model.TL — a generic TL1 codec (C14).

  What is modelled (Go, /repo):
    internal/vkgo/basictl/basictl.go   NatRead/NatWrite, IntRead/…/DoubleWrite (fixed width little endian),
                                       StringRead/StringWrite (+Bytes variants: byte for byte the same code),
                                       paddingLen / StringWritePadding, NatReadExactTag, ReadBool
    gen2/internal/*.go (generated)     struct ReadTL1/WriteTL1 (fields in schema order, fields conditional on a bit
                                       of an earlier `#` field or of a nat argument, nat arguments passed down to
                                       nested types), BuiltinVector…ReadTL1/WriteTL1 (count + items),
                                       BuiltinTuple… (n items, no count), ReadTL1Boxed/WriteTL1Boxed (constructor tag),
                                       unions (tag selects the constructor, unknown tag is an error), Bool, Maybe.
  The generated code is one instance of this codec per schema type; the schema is translated to `Desc` values
  by tools/tl2lean.py (SH/Gen/C14.lean, regenerated from the .tl files on every run) and the instance is tied to
  the generated Go by the correspondence harness (go/C14).

  Dictionaries: `Dictionary t` is a vector of (key, value) constructors on the wire and in this model (and in the
  []byte variants of the generated types). The string variants keep it in a Go map and write it sorted by key, a later
  duplicate replacing an earlier one: the identity on every value a map can hold (FillRandom values, sorted unique
  keys), a canonicalisation on other inputs. The correspondence compares such inputs (recognised on the Go side by
  "re-encoding differs from the consumed input") on verdict and consumed length only.

  Not modelled: basictl.CheckLengthSanity (an early EOF error for vectors whose count cannot fit in the remaining
  bytes; it changes which error is returned and avoids a big allocation, never whether a read succeeds, as long as
  every element really occupies at least the declared minimum) and the "length > MaxInt" branch of the huge string
  form (unreachable for 56-bit lengths on a 64-bit platform).

  Core Lean only: linked into drv_c14.
-/
import SH.Model.Core

namespace SH.TL

abbrev Bytes := List UInt8

/-! ### primitives (basictl) -/

/-- NatWrite / IntWrite / FloatWrite: 4 bytes little endian -/
def le32 (n : Nat) : Bytes :=
  [UInt8.ofNat (n % 256), UInt8.ofNat (n / 256 % 256), UInt8.ofNat (n / 65536 % 256), UInt8.ofNat (n / 16777216 % 256)]

/-- NatRead: `len(r) < 4` is an error, else little endian -/
def readNat : Bytes → Option (Nat × Bytes)
  | b0 :: b1 :: b2 :: b3 :: r => some (b0.toNat + b1.toNat * 256 + b2.toNat * 65536 + b3.toNat * 16777216, r)
  | _ => none

/-- first n bytes or failure (`len(r) < n`) -/
def takeN : Nat → Bytes → Option (Bytes × Bytes)
  | 0, r => some ([], r)
  | _ + 1, [] => none
  | n + 1, x :: r => match takeN n r with
    | some (a, b) => some (x :: a, b)
    | none => none

/-- basictl.paddingLen: `int(-uint(l) % 4)` -/
def padLen (p : Nat) : Nat := (4 - p % 4) % 4

/-- StringWritePadding(w, p % 4): case 1 → three zeros, 2 → two, 3 → one, otherwise none -/
def padW (p : Nat) : Nat :=
  match p % 4 with
  | 1 => 3
  | 2 => 2
  | 3 => 1
  | _ => 0

def tinyStringLen : Nat := 253
def maxMediumStringLen : Nat := 16777215      -- (1 << 24) - 1
def maxHugeStringLen : Nat := 72057594037927935 -- (1 << 56) - 1

def isTiny (l : Nat) : Bool := l ≤ tinyStringLen
def isMedium (l : Nat) : Bool := l ≤ maxMediumStringLen

/-- StringWriteLen: header bytes and the `p` the padding is computed from -/
def strHeader (l : Nat) : Bytes :=
  if isTiny l then [UInt8.ofNat l]
  else if isMedium l then [254, UInt8.ofNat (l % 256), UInt8.ofNat (l / 256 % 256), UInt8.ofNat (l / 65536 % 256)]
  else [255, UInt8.ofNat (l % 256), UInt8.ofNat (l / 256 % 256), UInt8.ofNat (l / 65536 % 256),
        UInt8.ofNat (l / 16777216 % 256), UInt8.ofNat (l / 4294967296 % 256), UInt8.ofNat (l / 1099511627776 % 256),
        UInt8.ofNat (l / 281474976710656 % 256)]

def strP (l : Nat) : Nat := if isTiny l then l + 1 else l

/-- StringWrite / StringWriteBytes -/
def encStr (b : Bytes) : Bytes :=
  strHeader b.length ++ b ++ List.replicate (padW (strP b.length)) 0

def allZero (z : Bytes) : Bool := z.all (fun x => x == 0)

/-- tail of StringRead: l payload bytes, paddingLen(p) padding bytes that must all be zero -/
def takeStr (l p : Nat) (r : Bytes) : Option (Bytes × Bytes) :=
  match takeN l r with
  | none => none
  | some (s, r1) =>
    match takeN (padLen p) r1 with
    | none => none
    | some (z, r2) => if allZero z then some (s, r2) else none

/-- StringRead / StringReadBytes: non-canonical length forms and non-zero padding are errors -/
def decStr : Bytes → Option (Bytes × Bytes)
  | [] => none
  | b0 :: r =>
    if b0.toNat ≤ tinyStringLen then takeStr b0.toNat (b0.toNat + 1) r
    else if b0.toNat = 254 then
      match r with
      | l0 :: l1 :: l2 :: r' =>
        if isTiny (l0.toNat + l1.toNat * 256 + l2.toNat * 65536) then none
        else takeStr (l0.toNat + l1.toNat * 256 + l2.toNat * 65536) (l0.toNat + l1.toNat * 256 + l2.toNat * 65536) r'
      | _ => none
    else
      match r with
      | l0 :: l1 :: l2 :: l3 :: l4 :: l5 :: l6 :: r' =>
        if isMedium (l0.toNat + l1.toNat * 256 + l2.toNat * 65536 + l3.toNat * 16777216 + l4.toNat * 4294967296
              + l5.toNat * 1099511627776 + l6.toNat * 281474976710656) then none
        else takeStr (l0.toNat + l1.toNat * 256 + l2.toNat * 65536 + l3.toNat * 16777216 + l4.toNat * 4294967296
              + l5.toNat * 1099511627776 + l6.toNat * 281474976710656)
             (l0.toNat + l1.toNat * 256 + l2.toNat * 65536 + l3.toNat * 16777216 + l4.toNat * 4294967296
              + l5.toNat * 1099511627776 + l6.toNat * 281474976710656) r'
      | _ => none

/-! ### descriptors and values -/

/-- a nat argument: literal or a reference into the environment of the enclosing constructor
    (its nat parameters first, then its unconditional `#` fields in declaration order) -/
inductive NatE where
  | const (k : Nat)
  | var (i : Nat)
deriving DecidableEq, Repr, Inhabited

abbrev Env := List Nat

def NatE.eval (env : Env) : NatE → Nat
  | .const k => k
  | .var i => env.getD i 0

mutual
inductive Desc where
  | nat                                   -- `#`
  | fixed (w : Nat)                       -- int, float (4); long, double (8): opaque little endian bytes
  | str                                   -- string ([]byte and string variants share the wire code)
  | vec (t : Desc)                        -- bare vector: count, items
  | tup (n : NatE) (t : Desc)             -- bare tuple: n items
  | struct (args : List NatE) (fs : Flds) -- bare constructor; args (evaluated outside) are its nat parameters
  | boxed (tag : Nat) (t : Desc)          -- constructor tag, then t
  | union (alts : Alts)                   -- boxed union: the tag selects the constructor
inductive Flds where
  | nil
  | natF (rest : Flds)                                   -- unconditional `#` field: value enters the environment
  | fld (t : Desc) (rest : Flds)                         -- unconditional field
  | opt (m : NatE) (bit : Nat) (t : Desc) (rest : Flds)  -- `name: m.bit ? t`
inductive Alts where
  | nil
  | cons (tag : Nat) (t : Desc) (rest : Alts)
end

mutual
inductive Val where
  | nat (n : Nat)
  | raw (b : Bytes)
  | str (b : Bytes)
  | list (vs : Vals)
  | recd (vs : Vals)         -- one entry per field; `none` for an absent conditional field
  | alt (i : Nat) (v : Val)  -- i-th constructor of a union
  | none
inductive Vals where
  | nil
  | cons (v : Val) (vs : Vals)
end

deriving instance DecidableEq for Val, Vals
deriving instance DecidableEq for Desc, Flds, Alts
deriving instance Repr for Val, Vals
deriving instance Repr for Desc, Flds, Alts

instance : Inhabited Val := ⟨.none⟩
instance : Inhabited Desc := ⟨.nat⟩

def Val.isNone : Val → Bool
  | .none => true
  | _ => false

def Vals.length : Vals → Nat
  | .nil => 0
  | .cons _ vs => vs.length + 1

/-- WriteTL1 of the items of a vector/tuple -/
def encVals (f : Val → Bytes) : Vals → Bytes
  | .nil => []
  | .cons v vs => f v ++ encVals f vs

/-- the read loop of a vector/tuple: n items, stop at the first error -/
def decN (f : Bytes → Option (Val × Bytes)) : Nat → Bytes → Option (Vals × Bytes)
  | 0, r => some (.nil, r)
  | n + 1, r =>
    match f r with
    | none => none
    | some (v, r1) =>
      match decN f n r1 with
      | none => none
      | some (vs, r2) => some (.cons v vs, r2)

def allVals (p : Val → Bool) : Vals → Bool
  | .nil => true
  | .cons v vs => p v && allVals p vs

def bitSet (env : Env) (m : NatE) (bit : Nat) : Bool := (m.eval env).testBit bit

def evalArgs (env : Env) (args : List NatE) : Env := args.map (NatE.eval env)

/-- tag of the i-th alternative (2^32 = "no such alternative", never equal to a real tag) -/
def tagAt : Alts → Nat → Nat
  | .nil, _ => 4294967296
  | .cons tag _ _, 0 => tag
  | .cons _ _ rest, i + 1 => tagAt rest i

mutual
/-- WriteTL1 -/
def enc : Desc → Env → Val → Bytes
  | .nat, _, .nat n => le32 n
  | .fixed _, _, .raw b => b
  | .str, _, .str b => encStr b
  | .vec t, env, .list vs => le32 vs.length ++ encVals (enc t env) vs
  | .tup _ t, env, .list vs => encVals (enc t env) vs
  | .struct args fs, env, .recd vs => encFlds fs (evalArgs env args) vs
  | .boxed tag t, env, v => le32 tag ++ enc t env v
  | .union alts, env, .alt i v => le32 (tagAt alts i) ++ encAlt alts env i v
  | _, _, _ => []
def encFlds : Flds → Env → Vals → Bytes
  | .natF rest, env, .cons (.nat n) vs => le32 n ++ encFlds rest (env ++ [n]) vs
  | .fld t rest, env, .cons v vs => enc t env v ++ encFlds rest env vs
  | .opt m bit t rest, env, .cons v vs =>
    if bitSet env m bit then enc t env v ++ encFlds rest env vs else encFlds rest env vs
  | _, _, _ => []
def encAlt : Alts → Env → Nat → Val → Bytes
  | .cons _ t _, env, 0, v => enc t env v
  | .cons _ _ rest, env, i + 1, v => encAlt rest env i v
  | .nil, _, _, _ => []
end

mutual
/-- ReadTL1: value and remaining bytes, `none` = any error -/
def dec : Desc → Env → Bytes → Option (Val × Bytes)
  | .nat, _, r => match readNat r with
    | some (n, r1) => some (.nat n, r1)
    | none => none
  | .fixed w, _, r => match takeN w r with
    | some (b, r1) => some (.raw b, r1)
    | none => none
  | .str, _, r => match decStr r with
    | some (b, r1) => some (.str b, r1)
    | none => none
  | .vec t, env, r => match readNat r with
    | some (n, r1) => match decN (dec t env) n r1 with
      | some (vs, r2) => some (.list vs, r2)
      | none => none
    | none => none
  | .tup n t, env, r => match decN (dec t env) (n.eval env) r with
    | some (vs, r1) => some (.list vs, r1)
    | none => none
  | .struct args fs, env, r => match decFlds fs (evalArgs env args) r with
    | some (vs, r1) => some (.recd vs, r1)
    | none => none
  | .boxed tag t, env, r => match readNat r with
    | some (n, r1) => if n = tag then dec t env r1 else none
    | none => none
  | .union alts, env, r => match readNat r with
    | some (n, r1) => decAlts alts env n r1 0
    | none => none
def decFlds : Flds → Env → Bytes → Option (Vals × Bytes)
  | .nil, _, r => some (.nil, r)
  | .natF rest, env, r => match readNat r with
    | some (n, r1) => match decFlds rest (env ++ [n]) r1 with
      | some (vs, r2) => some (.cons (.nat n) vs, r2)
      | none => none
    | none => none
  | .fld t rest, env, r => match dec t env r with
    | some (v, r1) => match decFlds rest env r1 with
      | some (vs, r2) => some (.cons v vs, r2)
      | none => none
    | none => none
  | .opt m bit t rest, env, r =>
    if bitSet env m bit then
      match dec t env r with
      | some (v, r1) => match decFlds rest env r1 with
        | some (vs, r2) => some (.cons v vs, r2)
        | none => none
      | none => none
    else
      match decFlds rest env r with
      | some (vs, r2) => some (.cons .none vs, r2)
      | none => none
def decAlts : Alts → Env → Nat → Bytes → Nat → Option (Val × Bytes)
  | .nil, _, _, _, _ => none
  | .cons tag t rest, env, n, r, k =>
    if n = tag then
      match dec t env r with
      | some (v, r1) => some (.alt k v, r1)
      | none => none
    else decAlts rest env n r (k + 1)
end

mutual
/-- well-typed values: the values the generated Go types can hold (and that WriteTL1 accepts) -/
def wt : Desc → Env → Val → Bool
  | .nat, _, .nat n => n < 4294967296
  | .fixed w, _, .raw b => b.length == w
  | .str, _, .str b => b.length ≤ maxHugeStringLen
  | .vec t, env, .list vs => vs.length < 4294967296 && allVals (wt t env) vs
  | .tup n t, env, .list vs => vs.length == n.eval env && allVals (wt t env) vs
  | .struct args fs, env, .recd vs => wtFlds fs (evalArgs env args) vs
  | .boxed tag t, env, v => tag < 4294967296 && wt t env v
  | .union alts, env, .alt i v => wtAlt alts env i v
  | _, _, _ => false
def wtFlds : Flds → Env → Vals → Bool
  | .nil, _, .nil => true
  | .natF rest, env, .cons (.nat n) vs => n < 4294967296 && wtFlds rest (env ++ [n]) vs
  | .fld t rest, env, .cons v vs => wt t env v && wtFlds rest env vs
  | .opt m bit t rest, env, .cons v vs =>
    if bitSet env m bit then wt t env v && wtFlds rest env vs
    else v.isNone && wtFlds rest env vs
  | _, _, _ => false
/-- the i-th alternative exists, its tag fits 32 bits and differs from every earlier tag (the reader takes the first match) -/
def wtAlt : Alts → Env → Nat → Val → Bool
  | .cons tag t _, env, 0, v => tag < 4294967296 && wt t env v
  | .cons tag _ rest, env, i + 1, v => tagAt rest i != tag && wtAlt rest env i v
  | .nil, _, _, _ => false
end

/-! ### bucket frames (internal/compress/lz4.go); lz4 itself is a parameter -/

/-- CompressAndFrame; `lz` = output of lz4.CompressBlockHC for `x` -/
def frameOf (lz x : Bytes) : Bytes :=
  le32 x.length ++ (if lz.length ≥ x.length then x else lz)

/-- DeFrame -/
def deFrame (f : Bytes) : Option (Nat × Bytes) :=
  if f.length < 4 then none else readNat f

def tooBig (maxU size : Nat) : Bool := size > maxU

/-- Decompress; `unlz data size` = lz4.UncompressBlock(data, make([]byte, size)) : bytes written or error -/
def decompress (maxU : Nat) (unlz : Bytes → Nat → Option Bytes) (size : Nat) (data : Bytes) : Option Bytes :=
  if size = data.length then some data
  else if tooBig maxU size then none
  else match unlz data size with
    | none => none
    | some out => if out.length = size then some out else none

/-- DeFrame then Decompress -/
def unframe (maxU : Nat) (unlz : Bytes → Nat → Option Bytes) (f : Bytes) : Option Bytes :=
  match deFrame f with
  | none => none
  | some (size, data) => decompress maxU unlz size data

/-! ### TL2 size codec and TL2 strings (internal/vkgo/basictl/basictl2.go) -/

def le64 (n : Nat) : Bytes :=
  [UInt8.ofNat (n % 256), UInt8.ofNat (n / 256 % 256), UInt8.ofNat (n / 65536 % 256), UInt8.ofNat (n / 16777216 % 256),
   UInt8.ofNat (n / 4294967296 % 256), UInt8.ofNat (n / 1099511627776 % 256), UInt8.ofNat (n / 281474976710656 % 256),
   UInt8.ofNat (n / 72057594037927936 % 256)]

def mediumStringMarker : Nat := 254
def maxInt : Nat := 9223372036854775807   -- math.MaxInt on the 64-bit platforms statshouse runs on

def tl2Tiny (l : Nat) : Bool := l < mediumStringMarker
def tl2Medium (l : Nat) : Bool := l < mediumStringMarker + 65536

/-- TL2WriteSize (TL2PutSize writes the same bytes in place, TL2CalculateSize is their number): one byte below 254,
    marker 254 and uint16(l-254) below 254+2^16, otherwise marker 255 and uint64(l) -/
def tl2WriteSize (l : Nat) : Bytes :=
  if tl2Tiny l then [UInt8.ofNat l]
  else if tl2Medium l then [254, UInt8.ofNat ((l - 254) % 256), UInt8.ofNat ((l - 254) / 256 % 256)]
  else 255 :: le64 l

def tl2CalculateSize (l : Nat) : Nat :=
  if tl2Tiny l then 1 else if tl2Medium l then 3 else 9

/-- TL2ParseSize: the huge form is accepted for any value ≤ MaxInt (non-canonical lengths are allowed there) -/
def tl2ParseSize : Bytes → Option (Nat × Bytes)
  | [] => none
  | b0 :: r =>
    if b0.toNat < mediumStringMarker then some (b0.toNat, r)
    else if b0.toNat = mediumStringMarker then
      match r with
      | l0 :: l1 :: r' => some (mediumStringMarker + (l0.toNat + l1.toNat * 256), r')
      | _ => none
    else
      match r with
      | l0 :: l1 :: l2 :: l3 :: l4 :: l5 :: l6 :: l7 :: r' =>
        if l0.toNat + l1.toNat * 256 + l2.toNat * 65536 + l3.toNat * 16777216 + l4.toNat * 4294967296
            + l5.toNat * 1099511627776 + l6.toNat * 281474976710656 + l7.toNat * 72057594037927936 > maxInt then none
        else some (l0.toNat + l1.toNat * 256 + l2.toNat * 65536 + l3.toNat * 16777216 + l4.toNat * 4294967296
            + l5.toNat * 1099511627776 + l6.toNat * 281474976710656 + l7.toNat * 72057594037927936, r')
      | _ => none

/-- StringWriteTL2 / StringWriteTL2Bytes -/
def tl2WriteStr (b : Bytes) : Bytes := tl2WriteSize b.length ++ b

/-- StringReadTL2 / StringReadTL2Bytes -/
def tl2ReadStr (r : Bytes) : Option (Bytes × Bytes) :=
  match tl2ParseSize r with
  | none => none
  | some (l, r1) => takeN l r1

/-! ### helpers for the driver -/

def Vals.toList : Vals → List Val
  | .nil => []
  | .cons v vs => v :: vs.toList

/-- the environment a constructor's fields leave behind (its nat parameters, then its `#` fields): what a function's
    result type refers to -/
def envAfter : Flds → Env → Vals → Env
  | .natF rest, env, .cons (.nat n) vs => envAfter rest (env ++ [n]) vs
  | .fld _ rest, env, .cons _ vs => envAfter rest env vs
  | .opt _ _ _ rest, env, .cons _ vs => envAfter rest env vs
  | _, env, _ => env

end SH.TL
