/-
  SH.Model.MetaIndex — model of internal/metajournal/meta_metrics.go: MetricsStorage.ApplyEvent and
  calcGroupForMetricLocked (property C20, second half: in-memory indexes and group assignment).

  The three index pairs of MetricsStorage (metricsByID/metricsByName, groupsByID/groupsByName,
  namespaceByID/namespaceByName) are `Idx` values: two association lists with first-match lookup, functional
  `aset` (Go: `m[k] = v`) and `adel` (Go: `delete(m, k)`). Stored values are immutable structs in the Go code, so a
  value (`Ent`) stands for the pointer.

  `Variant.fixed` is the code after fixes/C20-name-index.diff: on a rename the entry under the old name is deleted
  only if it still belongs to the renamed entity, and the regrouping pass keeps the name index instead of rebuilding it
  from the id index. `Variant.orig` is the pinned code (unconditional delete, rebuild from metricsByID); it is kept so
  that Props/C20 can exhibit the defect.

  External inputs (DESIGN §4.3): `slices.SortFunc` is not stable and starts from Go map order, so the relative order of
  two enabled user groups with the *same name* (possible only transiently on a replica) is an input: `tie` lists group
  ids in the order observed; it is consulted only between equal names. In `Variant.orig` the winner among two metrics
  with the same name in the rebuild depends on map order; the model uses list order (last wins).
-/
import SH.Gen.C20

namespace SH.MetaIndex

/-- a name as its bytes (Go compares strings bytewise) -/
abbrev Name := List Nat

/-- one stored metric / group / namespace (the fields ApplyEvent reads or writes) -/
structure Ent where
  id : Int
  name : Name
  ver : Int
  grp : Int := 0        -- metrics: GroupID
  dis : Bool := false   -- groups: Disable
deriving DecidableEq, Repr

/-! ### association lists -/

def aget {κ} [DecidableEq κ] : List (κ × Ent) → κ → Option Ent
  | [], _ => none
  | (k', v) :: r, k => if k' = k then some v else aget r k

def aset {κ} [DecidableEq κ] : List (κ × Ent) → κ → Ent → List (κ × Ent)
  | [], k, v => [(k, v)]
  | (k', v') :: r, k, v => if k' = k then (k, v) :: r else (k', v') :: aset r k v

def adel {κ} [DecidableEq κ] (m : List (κ × Ent)) (k : κ) : List (κ × Ent) := m.filter (fun p => p.1 ≠ k)

/-- an id index and a name index -/
structure Idx where
  byId : List (Int × Ent) := []
  byName : List (Name × Ent) := []
deriving DecidableEq, Repr

inductive Variant | fixed | orig
deriving DecidableEq, Repr

/-- is the entry under the old name deleted when `old` is renamed?  orig: always.  fixed: only if it is `old`'s. -/
def dropsOld (v : Variant) (x : Idx) (old : Ent) : Bool :=
  match v with
  | .orig => true
  | .fixed =>
    match aget x.byName old.name with
    | some cur => cur.id == old.id
    | none => false

/-- `if idExists && valueOld.Name != value.Name { delete(byName, valueOld.Name) }` -/
def renameOut (v : Variant) (x : Idx) (id : Int) (name : Name) : Idx :=
  match aget x.byId id with
  | some old => if old.name ≠ name ∧ dropsOld v x old = true then { x with byName := adel x.byName old.name } else x
  | none => x

/-- `byID[id] = value; byName[name] = value` -/
def put (x : Idx) (e : Ent) : Idx := { byId := aset x.byId e.id e, byName := aset x.byName e.name e }

def upsert (v : Variant) (x : Idx) (e : Ent) : Idx := put (renameOut v x e.id e.name) e

/-! ### group assignment -/

def lexLt : Name → Name → Bool
  | [], [] => false
  | [], _ :: _ => true
  | _ :: _, [] => false
  | a :: as, b :: bs => if a < b then true else if a = b then lexLt as bs else false

/-- `calcGroupForMetricLocked`: first group of `ordered` whose name is a prefix of the metric name -/
def calcGroup (ordered : List Ent) (name : Name) : Int :=
  match ordered.find? (fun g => g.name.isPrefixOf name) with
  | some g => g.id
  | none => SH.Gen.C20.builtinGroupIDDefault

def idxOf (tie : List Int) (id : Int) : Nat :=
  match tie with
  | [] => 0
  | t :: r => if t = id then 0 else idxOf r id + 1

/-- `a` is placed before `b`: names descending; between equal names the observed order `tie`, then the id -/
def before (tie : List Int) (a b : Ent) : Bool :=
  if a.name = b.name then
    (if idxOf tie a.id = idxOf tie b.id then decide (a.id ≤ b.id) else decide (idxOf tie a.id < idxOf tie b.id))
  else lexLt b.name a.name

def insertSorted (tie : List Int) (g : Ent) : List Ent → List Ent
  | [] => [g]
  | h :: r => if before tie g h then g :: h :: r else h :: insertSorted tie g r

def sortGroups (tie : List Int) (gs : List Ent) : List Ent := gs.foldr (insertSorted tie) []

/-- `g.ID > 0 && !g.Disable` -/
def userEnabled (g : Ent) : Bool := decide (0 < g.id) && !g.dis

def orderedOf (tie : List Int) (groups : Idx) : List Ent :=
  sortGroups tie ((groups.byId.map (·.2)).filter userEnabled)

/-! ### the storage -/

structure Store where
  metrics : Idx := {}
  groups : Idx := {}
  nss : Idx := {}
  ordered : List Ent := []     -- groupsOrdered
deriving DecidableEq, Repr

def nameOfString (s : String) : Name := s.toList.map Char.toNat

/-- `MakeMetricsStorage`: built-in groups and namespaces are present from the start -/
def init : Store :=
  let gs := SH.Gen.C20.builtinGroups.map (fun p => ({ id := p.1, name := nameOfString p.2.1, ver := 0, dis := p.2.2 } : Ent))
  let ns := SH.Gen.C20.builtinNamespaces.map (fun p => ({ id := p.1, name := nameOfString p.2, ver := 0 } : Ent))
  { groups := { byId := gs.map (fun g => (g.id, g)), byName := gs.map (fun g => (g.name, g)) },
    nss := { byId := ns.map (fun g => (g.id, g)), byName := ns.map (fun g => (g.name, g)) } }

/-- one journal event as ApplyEvent sees it; `ok` = the XxxMetaFromEvent converter succeeded -/
structure IEv where
  typ : Int
  id : Int
  name : Name
  ver : Int
  ok : Bool
  dis : Bool
deriving DecidableEq, Repr

/-- GroupID of an incoming metric: kept when the name is unchanged, otherwise computed from groupsOrdered -/
def metricGroup (st : Store) (e : IEv) : Int :=
  match aget st.metrics.byId e.id with
  | some old => if old.name = e.name then old.grp else calcGroup st.ordered e.name
  | none => calcGroup st.ordered e.name

def applyMetric (v : Variant) (st : Store) (e : IEv) : Store :=
  { st with metrics := upsert v st.metrics { id := e.id, name := e.name, ver := e.ver, grp := metricGroup st e } }

/-- `!idExists || valueOld.Name != value.Name || valueOld.Disable != value.Disable` -/
def groupChanged (st : Store) (e : IEv) : Bool :=
  match aget st.groups.byId e.id with
  | some old => old.name ≠ e.name || old.dis != e.dis
  | none => true

def applyGroup (v : Variant) (st : Store) (e : IEv) : Store :=
  { st with groups := upsert v st.groups { id := e.id, name := e.name, ver := e.ver, dis := e.dis } }

def applyNs (v : Variant) (st : Store) (e : IEv) : Store :=
  { st with nss := upsert v st.nss { id := e.id, name := e.name, ver := e.ver } }

def isMetric (e : IEv) : Bool := e.typ = SH.Gen.C20.metricEvent
def isGroup (e : IEv) : Bool := e.typ = SH.Gen.C20.metricsGroupEvent
def isNs (e : IEv) : Bool := e.typ = SH.Gen.C20.namespaceEvent

/-- one iteration of the `for _, e := range newEntries` loop; the Bool is `changedGroups` -/
def applyOne (v : Variant) (s : Store × Bool) (e : IEv) : Store × Bool :=
  if !e.ok then s
  else if isMetric e then (applyMetric v s.1 e, s.2)
  else if isGroup e then (applyGroup v s.1 e, s.2 || groupChanged s.1 e)
  else if isNs e then (applyNs v s.1 e, s.2)
  else s    -- dashboards, prom configs, unknown types: not part of the name indexes

def regroup (ordered : List Ent) (m : Ent) : Ent := { m with grp := calcGroup ordered m.name }

/-- the `if changedGroups { … }` pass -/
def rebuild (v : Variant) (tie : List Int) (st : Store) : Store :=
  let ordered := orderedOf tie st.groups
  let byId := st.metrics.byId.map (fun p => (p.1, regroup ordered p.2))
  let byName :=
    match v with
    | .fixed =>
      -- `for name, m := range ms.metricsByName { metricsByName[name] = metricsByID[m.MetricID] }`
      -- (a missing id would store nil in Go; impossible while every byName entry is also the byId entry — Props/C20 `I1`)
      st.metrics.byName.map (fun p => (p.1, (aget byId p.2.id).getD (regroup ordered p.2)))
    | .orig => byId.foldl (fun acc p => aset acc p.2.name p.2) []
  { st with metrics := { byId := byId, byName := byName }, ordered := ordered }

def finish (v : Variant) (tie : List Int) (s : Store × Bool) : Store :=
  if s.2 then rebuild v tie s.1 else s.1

/-- `MetricsStorage.ApplyEvent(newEntries)` -/
def applyBatch (v : Variant) (tie : List Int) (st : Store) (evs : List IEv) : Store :=
  finish v tie (evs.foldl (applyOne v) (st, false))

def applyBatches (v : Variant) (tie : List Int) (st : Store) (bs : List (List IEv)) : Store :=
  bs.foldl (applyBatch v tie) st

end SH.MetaIndex
