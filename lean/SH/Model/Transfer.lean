/-
  SH.Model.Transfer — executable model of the agent → aggregator row transfer (property C02).

  Modelled code (/repo, branch for branch):
    internal/data_model/max_host_probability.go  ItemCounter.AddCounterHost / ItemCounter.Merge      → addCounterHost
    internal/data_model/bucket.go                ItemValue.addOnlyValue / ItemValue.Merge            → addOnlyValue / itemMerge
                                                 MultiValue.AddCounterHost / ApplyValues / ApplyUnique /
                                                 AddValueCounterHost[Percentile]                      → applyEvent .counter / applyValues / applyUnique / addValuePct
                                                 MultiItem.MapStringTop(Bytes) (below capacity, never resampled) → topUpdate
    internal/agent/agent_shard.go                Shard.ApplyValues / ApplyUnique / ApplyCounter / AddValueCounterHost (count defaulting, routing) → Event.count / rowEvent
    internal/data_model/transfer.go              Key.TagSlice / STagSlice / TLMultiItemFromKey        → rowToTL (keys, skeys, t)
                                                 KeyFromStatshouseMultiItem (+ the Skeys loop of
                                                 aggregator_handlers.go with no mapping known)        → keyFromTL
                                                 MultiValue.MultiValueToTL                            → toTL
                                                 ItemValue.MergeWithTLItem2                           → mergeValueTL
                                                 MultiValue.MergeWithTL2                              → mergeTL
                                                 MultiItem.MergeWithTLMultiItem                       → mergeItemTL
    internal/agent/agent_shard_send.go           sampleBucket / keepF (row assembly)                  → rowToTL
    internal/format/format.go                    ValidateCounter / ValidateValue                      → counterErr / valueErr

  Numbers: the model is generic in the number type `α` (float64 in Go).  The driver instantiates it with `Rat`
  (the harness stays in the exact domain of float64, DESIGN §4.1), the theorems are proved for every linearly
  ordered field, the `decide` witnesses use `Int`.
  External functions are parameters (DESIGN §4.2–4.7): the random draw of AddCounterHost is `pick`, the 32-bit
  hash of a unique value travels with the value, `Centroids()` of hrissan/tdigest is the list `cents` handed to
  `toTL`; a digest is represented by the list of centroids added to it (the library ignores weights ≤ 0).
  The TL byte codec is not modelled here (C14): a TL value is a record of optional fields (= field-mask bits).

  `Variant`: `.repo` is the pinned tree; `.fixed` is the tree after fixes/C02-*.diff:
    exactCompact       MultiValueToTL uses the compact form (sum/sumsq/max omitted) only if the aggregator's
                       reconstruction sum = min·count, sumsq = sum·min is exact            (F1)
    explicitEmptyHost  an empty min/max-counter host that differs from the max host is sent as an explicit 0 and the
                       aggregator substitutes the sending agent's host for it             (F12)
-/
import SH.Model.Core

namespace SH.Transfer

abbrev Str := List Char

/-- data_model.TagUnion -/
structure Tag where
  i : Int
  s : Str
deriving DecidableEq, Repr, Inhabited

def Tag.none : Tag := ⟨0, []⟩
/-- TagUnion.Empty -/
def Tag.isEmpty (t : Tag) : Bool := t.i == 0 && t.s.isEmpty
/-- TagUnion.Normalize -/
def Tag.normalize (t : Tag) : Tag := if t.i != 0 then ⟨t.i, []⟩ else t
/-- `I` has priority over `S`: a normalized tag has at most one of them -/
def Tag.isNorm (t : Tag) : Bool := t.i == 0 || t.s.isEmpty

structure Variant where
  exactCompact : Bool
  explicitEmptyHost : Bool
deriving DecidableEq, Repr

def Variant.repo : Variant := ⟨false, false⟩
def Variant.fixed : Variant := ⟨true, true⟩

structure Centroid (α : Type) where
  mean : α
  w : α
deriving DecidableEq, Repr

/-- data_model.ItemValue (with the embedded ItemCounter) -/
structure ItemValue (α : Type) where
  counter : α
  hcnt : Tag
  min : α
  max : α
  sum : α
  sq : α
  hmin : Tag
  hmax : Tag
  vset : Bool
deriving DecidableEq, Repr

/-- data_model.MultiValue; `dg` = ValueTDigest (none = nil) as the list of added centroids, `uq` = the strictly
    increasing list of 32-bit hashes held by the ChUnique sketch (skipDegree 0) -/
structure MultiValue (α : Type) where
  v : ItemValue α
  dg : Option (List (Centroid α))
  uq : List Nat
deriving DecidableEq, Repr

section
variable {α : Type} [Zero α] [One α] [Add α] [Mul α] [Div α] [LT α] [LE α] [NatCast α]
  [DecidableEq α] [DecidableLT α] [DecidableLE α]

def ItemValue.empty : ItemValue α := ⟨0, Tag.none, 0, 0, 0, 0, Tag.none, Tag.none, false⟩
def MultiValue.empty : MultiValue α := ⟨ItemValue.empty, none, []⟩

/-! ### agent side: building a row from events -/

/-- ItemCounter.AddCounterHost = ItemCounter.Merge; `pick` = outcome of `rng.Uint64n(total) >= weight` -/
def addCounterHost (s : ItemValue α) (count : α) (host : Tag) (pick : Bool) : ItemValue α :=
  if count ≤ 0 then s
  else if s.counter ≤ 0 then { s with hcnt := host, counter := count }
  else if s.hcnt = host then { s with counter := s.counter + count }
  else if pick then { s with hcnt := host, counter := s.counter + count }
  else { s with counter := s.counter + count }

def newMin (s : ItemValue α) (value : α) : Bool := !s.vset || decide (value < s.min)
def newMax (s : ItemValue α) (value : α) : Bool := !s.vset || decide (s.max < value)

/-- ItemValue.addOnlyValue -/
def addOnlyValue (s : ItemValue α) (value count : α) (host : Tag) : ItemValue α :=
  { s with
    sum := s.sum + value * count
    sq := s.sq + value * value * count
    min := if newMin s value then value else s.min
    hmin := if newMin s value then host else s.hmin
    max := if newMax s value then value else s.max
    hmax := if newMax s value then host else s.hmax
    vset := true }

/-- SimpleItemCounter -/
def simpleItemCounter (count : α) (host : Tag) : ItemValue α :=
  { (ItemValue.empty : ItemValue α) with counter := count, hcnt := host }

/-- value half of ItemValue.Merge (s2.ValueSet is true) -/
def mergeValuePart (s s2 : ItemValue α) : ItemValue α :=
  { s with
    sum := s.sum + s2.sum
    sq := s.sq + s2.sq
    min := if newMin s s2.min then s2.min else s.min
    hmin := if newMin s s2.min then s2.hmin else s.hmin
    max := if newMax s s2.max then s2.max else s.max
    hmax := if newMax s s2.max then s2.hmax else s.hmax
    vset := true }

/-- ItemValue.Merge -/
def itemMerge (s s2 : ItemValue α) (pick : Bool) : ItemValue α :=
  if s2.vset then mergeValuePart (addCounterHost s s2.counter s2.hcnt pick) s2
  else addCounterHost s s2.counter s2.hcnt pick

/-- the "clean division" rescaling of ApplyValues / ApplyUnique -/
def scaleTmp (t : ItemValue α) (count total : α) : ItemValue α :=
  if count = total then t
  else if total = 1 then { t with sum := t.sum * count, sq := t.sq * count }
  else { t with sum := t.sum * count / total, sq := t.sq * count / total }

def tmpOfValues (hist : List (α × α)) (vals : List α) (count total : α) (host : Tag) : ItemValue α :=
  scaleTmp
    (hist.foldl (fun t kv => addOnlyValue t kv.1 kv.2 host)
      (vals.foldl (fun t x => addOnlyValue t x 1 host) (simpleItemCounter count host)))
    count total

/-- tdigest.AddCentroid: weights ≤ 0 are ignored -/
def dgAdd (l : List (Centroid α)) (c : Centroid α) : List (Centroid α) :=
  if c.w ≤ 0 then l else l ++ [c]

/-- the digest a value event starts from: the existing one, or a new one seeded with the previous single value -/
def dgBase (m : MultiValue α) : List (Centroid α) :=
  match m.dg with
  | some l => l
  | none => if m.v.vset then dgAdd [] ⟨m.v.max, m.v.counter⟩ else []

def mult (count total : α) : α := if count = total then 1 else count / total

def valueCentroids (hist : List (α × α)) (vals : List α) (count total : α) : List (Centroid α) :=
  vals.map (fun x => ⟨x, mult count total⟩) ++ hist.map (fun kv => ⟨kv.1, mult count total * kv.2⟩)

/-- MultiValue.ApplyValues -/
def applyValues (m : MultiValue α) (hist : List (α × α)) (vals : List α) (count total : α) (host : Tag)
    (pick hasPct : Bool) : MultiValue α :=
  if total ≤ 0 then m
  else
    let v' := itemMerge m.v (tmpOfValues hist vals count total host) pick
    if !hasPct then { m with v := v' }
    else if v'.min = v'.max then { m with v := v' }
    else { m with v := v', dg := some ((valueCentroids hist vals count total).foldl dgAdd (dgBase m)) }

/-- MultiValue.ApplyValuesLegacy (agent Config.LegacyApplyValues): the digest is created eagerly, every value is added
    to it even while all values are identical -/
def applyValuesLegacy (m : MultiValue α) (hist : List (α × α)) (vals : List α) (count total : α) (host : Tag)
    (pick hasPct : Bool) : MultiValue α :=
  if total ≤ 0 then m
  else
    { m with
      v := itemMerge m.v (tmpOfValues hist vals count total host) pick
      dg := if hasPct then some ((valueCentroids hist vals count total).foldl dgAdd (m.dg.getD [])) else m.dg }

/-- MultiValue.AddValueCounterHostPercentile (hasPct) / MultiValue.AddValueCounterHost (otherwise), as chosen by
    Shard.AddValueCounterHost -/
def addValuePct (m : MultiValue α) (value count : α) (host : Tag) (pick hasPct : Bool) : MultiValue α :=
  let v' := addOnlyValue (addCounterHost m.v count host pick) value count host
  if !hasPct then { m with v := v' }
  else if v'.min = v'.max then { m with v := v' }
  else { m with v := v', dg := some (dgAdd (dgBase m) ⟨value, count⟩) }

/-- insertion into a strictly increasing list (ChUnique.Insert at skipDegree 0, observed as a set) -/
def setInsert : List Nat → Nat → List Nat
  | [], x => [x]
  | y :: ys, x => if x < y then x :: y :: ys else if x = y then y :: ys else y :: setInsert ys x

/-- MultiValue.ApplyUnique; every hash comes as (value as a number, its 32-bit sketch hash) -/
def applyUnique (m : MultiValue α) (hashes : List (α × Nat)) (count : α) (host : Tag) (pick : Bool) : MultiValue α :=
  if ((hashes.length : Nat) : α) ≤ 0 then m
  else
    { m with
      uq := hashes.foldl (fun u h => setInsert u h.2) m.uq
      v := itemMerge m.v
        (scaleTmp (hashes.foldl (fun t h => addOnlyValue t h.1 1 host) (simpleItemCounter count host))
          count ((hashes.length : Nat) : α)) pick }

/-- Shard.ApplyValues: totalCount and the defaulting of count -/
def totalCount (hist : List (α × α)) (vals : List α) : α :=
  hist.foldl (fun t kv => t + kv.2) ((vals.length : Nat) : α)

def defaultCount (count total : α) : α := if count = 0 then total else count

inductive Event (α : Type) where
  /-- counter-only event -/
  | counter (count : α) (host : Tag) (pick : Bool)
  /-- value / histogram event (metric without or with percentiles) -/
  | values (hist : List (α × α)) (vals : List α) (count : α) (host : Tag) (pick hasPct : Bool)
  /-- value / histogram event on an agent running with LegacyApplyValues -/
  | valuesLegacy (hist : List (α × α)) (vals : List α) (count : α) (host : Tag) (pick hasPct : Bool)
  /-- single value with a count (Shard.AddValueCounterHost, used for built-in metrics) -/
  | valuePct (value count : α) (host : Tag) (pick hasPct : Bool)
  /-- unique event -/
  | unique (hashes : List (α × Nat)) (count : α) (host : Tag) (pick : Bool)
deriving Repr

/-- the count an event carries into MapStringTop / the MultiValue (after Shard.Apply* defaulting) -/
def Event.count : Event α → α
  | .counter c _ _ => c
  | .values hist vals c _ _ _ => defaultCount c (totalCount hist vals)
  | .valuesLegacy hist vals c _ _ _ => defaultCount c (totalCount hist vals)
  | .valuePct _ c _ _ _ => c
  | .unique hashes c _ _ => defaultCount c ((hashes.length : Nat) : α)

/-- what the event does to the MultiValue it was routed to -/
def applyEvent (m : MultiValue α) (e : Event α) : MultiValue α :=
  match e with
  | .counter c host pick => { m with v := addCounterHost m.v c host pick }
  | .values hist vals c host pick hasPct =>
      applyValues m hist vals (defaultCount c (totalCount hist vals)) (totalCount hist vals) host pick hasPct
  | .valuesLegacy hist vals c host pick hasPct =>
      applyValuesLegacy m hist vals (defaultCount c (totalCount hist vals)) (totalCount hist vals) host pick hasPct
  | .valuePct value c host pick hasPct => addValuePct m value c host pick hasPct
  | .unique hashes c host pick => applyUnique m hashes (defaultCount c ((hashes.length : Nat) : α)) host pick

/-! ### keys and rows -/

/-- data_model.Key (Tags and STags are arrays of format.MaxTags entries) -/
structure Key where
  ts : Nat
  metric : Int
  tags : List Int
  stags : List Str
deriving DecidableEq, Repr

/-- data_model.MultiItem: Top (a Go map; here an association list with distinct keys) and Tail -/
structure Row (α : Type) where
  key : Key
  top : List (Tag × MultiValue α)
  tail : MultiValue α
deriving DecidableEq, Repr

def Row.empty (k : Key) : Row α := ⟨k, [], MultiValue.empty⟩

/-- apply `f` to the entry with key `k`, appending a fresh entry if there is none
    (MultiItem.MapStringTop below capacity with sampleFactorLog2 = 0, followed by the update) -/
def topUpdate (top : List (Tag × MultiValue α)) (k : Tag) (f : MultiValue α → MultiValue α) : List (Tag × MultiValue α) :=
  match top with
  | [] => [(k, f MultiValue.empty)]
  | (k', m) :: rest => if k' = k then (k', f m) :: rest else (k', m) :: topUpdate rest k f

/-- Shard.Apply*: events whose count is ≤ 0 after defaulting are dropped before the row is touched; the others go to
    Tail (empty string-top tag) or to the Top entry of the normalized tag -/
def rowEvent (r : Row α) (topTag : Tag) (e : Event α) : Row α :=
  if e.count ≤ 0 then r
  else if topTag.isEmpty then { r with tail := applyEvent r.tail e }
  else { r with top := topUpdate r.top topTag.normalize (fun m => applyEvent m e) }

/-! ### the TL layer -/

/-- tlstatshouse.MultiValue: `some` = field-mask bit set (bit numbers in comments) -/
structure TLValue (α : Type) where
  counter : Option α                  -- 0
  eq1 : Bool                          -- 1
  vset : Bool                         -- 2
  min : Option α                      -- 3
  max : Option α                      -- 4 (ValueMax, ValueSum, ValueSumSquare share the bit)
  sum : α
  sq : α
  uq : Option (List Nat)              -- 5
  cents : Option (List (Centroid α))  -- 6
  implicit : Bool                     -- 18
  hmaxI : Option Int                  -- 7
  hminI : Option Int                  -- 8
  hcntI : Option Int                  -- 9
  hmaxS : Option Str                  -- 14
  hminS : Option Str                  -- 15
  hcntS : Option Str                  -- 16
deriving DecidableEq, Repr

def TLValue.empty : TLValue α :=
  ⟨none, false, false, none, none, 0, 0, none, none, false, none, none, none, none, none, none⟩

def hostI (t : Tag) : Option Int := if t.i ≠ 0 then some t.i else none
def hostS (t : Tag) : Option Str := if t.i ≠ 0 then none else if t.s.isEmpty then none else some t.s

/-- int field of a host that is only sent when it differs from the max host (`expl`: variant explicitEmptyHost) -/
def hostDiffI (expl : Bool) (t hmax : Tag) : Option Int :=
  if t = hmax then none
  else if t.i ≠ 0 then some t.i
  else if t.s.isEmpty then (if expl then some 0 else none)
  else none

def hostDiffS (t hmax : Tag) : Option Str := if t = hmax then none else hostS t

/-- can the aggregator restore max/sum/sumsq from min and counter? -/
def compact (var : Variant) (v : ItemValue α) : Bool :=
  if var.exactCompact then decide (v.min = v.max) && decide (v.sum = v.min * v.counter) && decide (v.sq = v.sum * v.min)
  else decide (v.min = v.max)

def scaleCentroids (cents : List (Centroid α)) (sf : α) : List (Centroid α) :=
  cents.map (fun c => ⟨c.mean, c.w * sf⟩)

/-- fields written by MultiValueToTL before the `if !s.Value.ValueSet { return }` -/
def toTLHead (var : Variant) (m : MultiValue α) (sf : α) : TLValue α :=
  { (TLValue.empty : TLValue α) with
    hmaxI := hostI m.v.hmax
    hmaxS := hostS m.v.hmax
    hminI := hostDiffI var.explicitEmptyHost m.v.hmin m.v.hmax
    hminS := hostDiffS m.v.hmin m.v.hmax
    hcntI := hostDiffI var.explicitEmptyHost m.v.hcnt m.v.hmax
    hcntS := hostDiffS m.v.hcnt m.v.hmax
    uq := if m.uq.isEmpty then none else some m.uq
    eq1 := decide (m.v.counter * sf = 1)
    counter := if m.v.counter * sf = 1 then none else some (m.v.counter * sf) }

/-- centroid fields: `cents` = ValueTDigest.Centroids() when the digest exists -/
def toTLCents (m : MultiValue α) (sf : α) (hasPct : Bool) (cents : List (Centroid α)) : Option (List (Centroid α)) :=
  if hasPct && m.dg.isSome && !cents.isEmpty then some (scaleCentroids cents sf) else none

def toTLImplicit (m : MultiValue α) (hasPct : Bool) : Bool := hasPct && m.dg.isNone

/-- MultiValue.MultiValueToTL -/
def toTL (var : Variant) (m : MultiValue α) (sf : α) (hasPct : Bool) (cents : List (Centroid α)) : TLValue α :=
  if m.v.counter * sf ≤ 0 then TLValue.empty
  else if !m.v.vset then toTLHead var m sf
  else
    { toTLHead var m sf with
      cents := toTLCents m sf hasPct cents
      implicit := toTLImplicit m hasPct
      vset := true
      min := if m.v.min = 0 then none else some m.v.min
      max := if compact var m.v then none else some m.v.max
      sum := if compact var m.v then 0 else m.v.sum * sf
      sq := if compact var m.v then 0 else m.v.sq * sf }

/-! ### aggregator side -/

/-- math.MaxFloat32 -/
def maxF32 : Nat := 340282346638528859811704183484516925440

/-- format.ValidateCounter (NaN cannot occur in the model): 0 = ok, 1 = negative, 2 = too big -/
def counterErr (c : α) : Nat := if c < 0 then 1 else if ((maxF32 : Nat) : α) < c then 2 else 0
/-- format.ValidateValue: 0 = ok, 3 = too big (either sign) -/
def valueErr (x : α) : Nat := if ((maxF32 : Nat) : α) < x then 3 else if x + ((maxF32 : Nat) : α) < 0 then 3 else 0

def tlCounter (t : TLValue α) : α := if t.eq1 then 1 else t.counter.getD 0

def tagOf (i : Option Int) (s : Option Str) : Tag := ⟨i.getD 0, s.getD []⟩

/-- step 2 of MergeWithTL2 -/
def restoreMaxHost (t : TLValue α) (host : Tag) : Tag :=
  if t.hmaxI.isNone && t.hmaxS.isNone then host else tagOf t.hmaxI t.hmaxS

def restoreOther (var : Variant) (i : Option Int) (s : Option Str) (hmax host : Tag) : Tag :=
  if i.isNone && s.isNone then hmax
  else if var.explicitEmptyHost && (tagOf i s).isEmpty then host
  else tagOf i s

def restoreMinHost (var : Variant) (t : TLValue α) (host : Tag) : Tag :=
  restoreOther var t.hminI t.hminS (restoreMaxHost t host) host

def restoreCntHost (var : Variant) (t : TLValue α) (host : Tag) : Tag :=
  restoreOther var t.hcntI t.hcntS (restoreMaxHost t host) host

/-- ChUnique.MergeRead at skipDegree 0: every incoming hash is inserted -/
def uqMerge (a : List Nat) (b : Option (List Nat)) : List Nat := (b.getD []).foldl setInsert a

/-- ItemValue.MergeWithTLItem2; `c` is the restored counter -/
def mergeValueTL (var : Variant) (s : ItemValue α) (t : TLValue α) (c : α) (host : Tag) : ItemValue α :=
  let mn := t.min.getD 0
  let mx := if t.max.isNone then mn else t.max.getD 0
  let sm := if t.max.isNone then mn * c else t.sum
  let sq := if t.max.isNone then mn * c * mn else t.sq
  { s with
    sum := s.sum + sm
    sq := s.sq + sq
    min := if newMin s mn then mn else s.min
    hmin := if newMin s mn then restoreMinHost var t host else s.hmin
    max := if newMax s mx then mx else s.max
    hmax := if newMax s mx then restoreMaxHost t host else s.hmax
    vset := true }

/-- the centroid loop of MergeWithTL2: zero counts skipped, an invalid centroid aborts with an ingestion error -/
def addCentroids : List (Centroid α) → List (Centroid α) → List (Centroid α) × Nat
  | dg, [] => (dg, 0)
  | dg, c :: cs =>
    if c.w = 0 then addCentroids dg cs
    else if counterErr c.w ≠ 0 then (dg, counterErr c.w)
    else if valueErr c.mean ≠ 0 then (dg, valueErr c.mean)
    else addCentroids (dgAdd dg c) cs

structure Merged (α : Type) where
  mv : MultiValue α
  err : Nat
deriving DecidableEq, Repr

def tlCents (t : TLValue α) : List (Centroid α) := t.cents.getD []

/-- the tail of MergeWithTL2 after MergeWithTLItem2: explicit centroids, then the implicit one -/
def mergeDigest (m : MultiValue α) (t : TLValue α) (c : α) : Merged α :=
  if (tlCents t).isEmpty then
    if t.implicit then ⟨{ m with dg := some (dgAdd (m.dg.getD []) ⟨t.min.getD 0, c⟩) }, 0⟩ else ⟨m, 0⟩
  else if (addCentroids (m.dg.getD []) (tlCents t)).2 ≠ 0 then
    ⟨{ m with dg := some (addCentroids (m.dg.getD []) (tlCents t)).1 }, (addCentroids (m.dg.getD []) (tlCents t)).2⟩
  else if t.implicit then
    ⟨{ m with dg := some (dgAdd (addCentroids (m.dg.getD []) (tlCents t)).1 ⟨t.min.getD 0, c⟩) }, 0⟩
  else ⟨{ m with dg := some (addCentroids (m.dg.getD []) (tlCents t)).1 }, 0⟩

/-- value validation of MergeWithTL2 step 4 (on the raw fields, before the compact form is expanded) -/
def valueFieldsErr (t : TLValue α) : Nat :=
  if valueErr (t.min.getD 0) ≠ 0 then valueErr (t.min.getD 0)
  else if valueErr (t.max.getD 0) ≠ 0 then valueErr (t.max.getD 0)
  else valueErr t.sum

/-- steps 2–3 of MergeWithTL2: counter with its host, uniques -/
def mergeCounterUq (var : Variant) (m : MultiValue α) (t : TLValue α) (host : Tag) (pick : Bool) : MultiValue α :=
  { m with v := addCounterHost m.v (tlCounter t) (restoreCntHost var t host) pick, uq := uqMerge m.uq t.uq }

/-- MultiValue.MergeWithTL2 -/
def mergeTL (var : Variant) (m : MultiValue α) (t : TLValue α) (host : Tag) (pick : Bool) : Merged α :=
  if tlCounter t = 0 then ⟨m, 0⟩
  else if counterErr (tlCounter t) ≠ 0 then ⟨m, counterErr (tlCounter t)⟩
  else if !t.vset then ⟨mergeCounterUq var m t host pick, 0⟩
  else if valueFieldsErr t ≠ 0 then ⟨mergeCounterUq var m t host pick, valueFieldsErr t⟩
  else
    mergeDigest
      { mergeCounterUq var m t host pick with
        v := mergeValueTL var (mergeCounterUq var m t host pick).v t (tlCounter t) host }
      t (tlCounter t)

/-! ### row level: key transport and string tops -/

/-- format.MaxTags -/
def maxTags : Nat := 48

def dropTrailing {β : Type} (p : β → Bool) (l : List β) : List β := (l.reverse.dropWhile p).reverse

def padTo {β : Type} (n : Nat) (d : β) (l : List β) : List β := (l ++ List.replicate (n - l.length) d).take n

structure TLTop (α : Type) where
  stag : Str
  tag : Option Int            -- FieldsMask bit 10
  value : TLValue α
deriving DecidableEq, Repr

/-- tlstatshouse.MultiItem -/
structure TLItem (α : Type) where
  metric : Int
  keys : List Int
  skeys : Option (List Str)   -- FieldsMask bit 12
  t : Option Nat              -- FieldsMask bit 10
  tail : TLValue α
  top : Option (List (TLTop α))  -- FieldsMask bit 11
deriving DecidableEq, Repr

def sendT (k : Key) (bucketTs : Nat) : Bool := k.ts != 0 && k.ts != bucketTs

/-- BelieveTimestampWindow -/
def believeWindow : Nat := 86400 + 2 * 3600

/-- KeyFromStatshouseMultiItem timestamp logic: (timestamp, ingestion warning: 0 none, 1 clamped future, 2 clamped past) -/
def tsFromTL (t : Option Nat) (bucketTs : Nat) : Nat × Nat :=
  match t with
  | none => (bucketTs, 0)
  | some x =>
    if bucketTs < x then (bucketTs, 1)
    else if x + believeWindow < bucketTs then (bucketTs, 2)
    else (x, 0)

/-- Key.TLMultiItemFromKey + sampleBucket.keepF -/
def rowToTL (var : Variant) (r : Row α) (bucketTs : Nat) (sf : α) (hasPct : Bool)
    (cents : Tag → List (Centroid α)) : TLItem α :=
  { metric := r.key.metric
    keys := dropTrailing (fun x => x == 0) r.key.tags
    skeys := if (dropTrailing (fun (x : Str) => x.isEmpty) r.key.stags).isEmpty then none
             else some (dropTrailing (fun (x : Str) => x.isEmpty) r.key.stags)
    t := if sendT r.key bucketTs then some r.key.ts else none
    tail := toTL var r.tail sf hasPct (cents Tag.none)
    top := if r.top.isEmpty then none
           else some (r.top.map (fun kv => ⟨kv.1.s, hostI kv.1, toTL var kv.2 sf hasPct (cents kv.1)⟩)) }

/-- KeyFromStatshouseMultiItem + the Skeys loop of handleSendSourceBucket (no string mapping known) -/
def keyFromTL (it : TLItem α) (bucketTs : Nat) : Key :=
  { ts := (tsFromTL it.t bucketTs).1
    metric := it.metric
    tags := padTo maxTags 0 it.keys
    stags := padTo maxTags [] (it.skeys.getD []) }

structure MergedRow (α : Type) where
  row : Row α
  err : Nat
deriving DecidableEq, Repr

/-- one element of the Top loop of MergeWithTLMultiItem: MapStringTopBytes (below capacity, fresh item: never
    resampled) then MergeWithTL2 -/
def mergeTopElem (var : Variant) (r : Row α) (e : TLTop α) (host : Tag) (pick : Bool) : MergedRow α :=
  if (tagOf e.tag (some e.stag)).isEmpty then
    ⟨{ r with tail := (mergeTL var r.tail e.value host pick).mv }, (mergeTL var r.tail e.value host pick).err⟩
  else
    ⟨{ r with top := topUpdate r.top (tagOf e.tag (some e.stag)).normalize (fun m => (mergeTL var m e.value host pick).mv) },
      (mergeTL var ((r.top.lookup (tagOf e.tag (some e.stag)).normalize).getD MultiValue.empty) e.value host pick).err⟩

def mergeTops (var : Variant) (host : Tag) (pick : Bool) : Row α → List (TLTop α) → MergedRow α
  | r, [] => ⟨r, 0⟩
  | r, e :: es =>
    if (mergeTopElem var r e host pick).err ≠ 0 then mergeTopElem var r e host pick
    else mergeTops var host pick (mergeTopElem var r e host pick).row es

/-- MultiItem.MergeWithTLMultiItem into the row `r` -/
def mergeItemTL (var : Variant) (r : Row α) (it : TLItem α) (host : Tag) (pick : Bool) : MergedRow α :=
  if (mergeTops var host pick r (it.top.getD [])).err ≠ 0 then mergeTops var host pick r (it.top.getD [])
  else
    ⟨{ (mergeTops var host pick r (it.top.getD [])).row with
        tail := (mergeTL var (mergeTops var host pick r (it.top.getD [])).row.tail it.tail host pick).mv },
      (mergeTL var (mergeTops var host pick r (it.top.getD [])).row.tail it.tail host pick).err⟩

/-- what the aggregator holds after receiving `it` in a bucket with time `bucketTs` from the agent on `host` -/
def receive (var : Variant) (it : TLItem α) (bucketTs : Nat) (host : Tag) : MergedRow α :=
  mergeItemTL var (Row.empty (keyFromTL it bucketTs)) it host false

/-! ### the string → int32 mapping glue of handleSendSourceBucket

  The aggregator replaces every string it knows a mapping for (string tags of the key, the three host string tags of the
  tail and of every top element, the string-top tag itself) by the mapped int32 before the row is merged; `mp` is the
  aggregator's mapping table (`getTagValueBytes`), a value ≤ 0 or an empty string means "not mapped" (`mapStringTag`
  returns 0).  Invalid strings (`validateStringTag` fails: the row is dropped) are outside the model. -/

def mapStr (mp : Str → Int) (s : Str) : Int := if s.isEmpty then 0 else mp s

/-- a TagUnion as the aggregator sees it: a mapped string becomes its int -/
def mapTag (mp : Str → Int) (t : Tag) : Tag := if t.i = 0 ∧ 0 < mapStr mp t.s then ⟨mapStr mp t.s, []⟩ else t

def mapHostI (mp : Str → Int) (i : Option Int) (s : Option Str) : Option Int :=
  match s with
  | some str => if 0 < mapStr mp str then some (mapStr mp str) else i
  | none => i

def mapHostS (mp : Str → Int) (s : Option Str) : Option Str :=
  match s with
  | some str => if 0 < mapStr mp str then none else some str
  | none => none

/-- `if item.Tail.IsSetMaxHostStag … SetMaxHostTag(m); ClearMaxHostStag` and the same for min / max-counter host -/
def mapTLValue (mp : Str → Int) (t : TLValue α) : TLValue α :=
  { t with
    hmaxI := mapHostI mp t.hmaxI t.hmaxS
    hmaxS := mapHostS mp t.hmaxS
    hminI := mapHostI mp t.hminI t.hminS
    hminS := mapHostS mp t.hminS
    hcntI := mapHostI mp t.hcntI t.hcntS
    hcntS := mapHostS mp t.hcntS }

/-- `ptb.Tag = m; ptb.Stag = ptb.Stag[:0]` plus the host mapping of the element's value -/
def mapTLTop (mp : Str → Int) (e : TLTop α) : TLTop α :=
  { stag := if 0 < mapStr mp e.stag then [] else e.stag
    tag := if 0 < mapStr mp e.stag then some (mapStr mp e.stag) else e.tag
    value := mapTLValue mp e.value }

def mapItem (mp : Str → Int) (it : TLItem α) : TLItem α :=
  { it with tail := mapTLValue mp it.tail, top := it.top.map (List.map (mapTLTop mp)) }

/-- KeyFromStatshouseMultiItem + the Skeys loop of handleSendSourceBucket: `k.Tags[i] = m` if mapped, else `k.STags[i] = str` -/
def keyFromTLm (mp : Str → Int) (it : TLItem α) (bucketTs : Nat) : Key :=
  { ts := (tsFromTL it.t bucketTs).1
    metric := it.metric
    tags := List.zipWith (fun (t : Int) (s : Str) => if 0 < mapStr mp s then mapStr mp s else t)
      (padTo maxTags 0 it.keys) (padTo maxTags [] (it.skeys.getD []))
    stags := (padTo maxTags [] (it.skeys.getD [])).map (fun (s : Str) => if 0 < mapStr mp s then [] else s) }

/-- what the aggregator that knows the mappings `mp` holds after handleSendSourceBucket processed `it` -/
def receiveM (var : Variant) (mp : Str → Int) (it : TLItem α) (bucketTs : Nat) (host : Tag) : MergedRow α :=
  mergeItemTL var (Row.empty (keyFromTLm mp it bucketTs)) (mapItem mp it) host false

/-! ### agent side: string tops at capacity (MultiItem.MapStringTop / resample / FinishStringTop, MultiValue.Merge)

  Relational in the random draws and in the Go map / unstable-sort order (DESIGN §4.2–4.3): WHICH entries a resample
  round evicts and in WHICH order they are folded into Tail are inputs; the model checks the necessary conditions the
  code imposes on them and returns `none` for an impossible input. -/

/-- MultiValue.Merge: ChUnique.Merge at skipDegree 0 = union; the digest of `b` is adopted or its (processed)
    centroids are added — the list is what tdigest reports, trusted -/
def mvMerge (a b : MultiValue α) (pick : Bool) : MultiValue α :=
  { v := itemMerge a.v b.v pick
    dg := match b.dg with
      | none => a.dg
      | some lb => match a.dg with
        | none => some lb
        | some la => some (la ++ lb)
    uq := b.uq.foldl setInsert a.uq }

def topRemove (top : List (Tag × MultiValue α)) (k : Tag) : List (Tag × MultiValue α) :=
  top.filter (fun kv => !(kv.1 == k))

/-- `s.Tail.Merge(rng, v); delete(s.Top, k)` for the listed keys, in the listed order, each with the outcome of its
    max-counter-host draw -/
def foldIntoTail (r : Row α) : List (Tag × Bool) → Row α
  | [] => r
  | (k, pick) :: ks =>
    match r.top.lookup k with
    | none => foldIntoTail r ks
    | some m => foldIntoTail { r with tail := mvMerge r.tail m pick, top := topRemove r.top k } ks

/-- MultiItem with its sampleFactorLog2 -/
structure AgentRow (α : Type) where
  row : Row α
  sfLog2 : Nat
deriving DecidableEq, Repr

/-- an entry can be evicted by a round with factor 2^k only if `!(Count() >= sf)` and `!(Count() > rv)` for some
    integer draw rv < sf, i.e. Count < sf and Count ≤ sf - 1 -/
def evictable (k : Nat) (m : MultiValue α) : Bool :=
  decide (m.v.counter < ((2 ^ k : Nat) : α)) && decide (m.v.counter ≤ ((2 ^ k - 1 : Nat) : α))

def evictionOk (a : AgentRow α) (ev : List (Tag × Bool)) : Bool :=
  ev.all (fun kp => match a.row.top.lookup kp.1 with
    | some m => evictable (a.sfLog2 + 1) m
    | none => false)

/-- MultiItem.resample: one round; `ev` = the evicted keys in enumeration order -/
def resampleRound (a : AgentRow α) (ev : List (Tag × Bool)) : Option (AgentRow α) :=
  if evictionOk a ev then some ⟨foldIntoTail a.row ev, a.sfLog2 + 1⟩ else none

/-- `for len(s.Top) >= capacity { s.resample(rng) }`: the list of rounds is the fuel and must be used up exactly -/
def resampleLoop (cap : Nat) : AgentRow α → List (List (Tag × Bool)) → Option (AgentRow α)
  | a, [] => if a.row.top.length < cap then some a else none
  | a, ev :: rest =>
    if a.row.top.length < cap then none
    else match resampleRound a ev with
      | none => none
      | some a' => resampleLoop cap a' rest

/-- DefaultStringTopCapacity -/
def defaultTopCapacity : Nat := 100

/-- Shard.Apply* with the full MultiItem.MapStringTop: `redirect` = outcome of
    `sampleFactorLog2 != 0 && rng.Float64()*sf >= count` (only possible after a resample), `rounds` = the resample rounds -/
def rowEventCap (cap : Nat) (a : AgentRow α) (topTag : Tag) (e : Event α) (redirect : Bool)
    (rounds : List (List (Tag × Bool))) : Option (AgentRow α) :=
  if e.count ≤ 0 then some a
  else if topTag.isEmpty then some { a with row := { a.row with tail := applyEvent a.row.tail e } }
  else if (a.row.top.lookup topTag.normalize).isSome then
    some { a with row := { a.row with top := topUpdate a.row.top topTag.normalize (fun m => applyEvent m e) } }
  else if redirect then
    (if a.sfLog2 = 0 then none else some { a with row := { a.row with tail := applyEvent a.row.tail e } })
  else match resampleLoop (if cap < 1 then defaultTopCapacity else cap) a rounds with
    | none => none
    | some a' => some { a' with row := { a'.row with top := topUpdate a'.row.top topTag.normalize (fun m => applyEvent m e) } }

/-- MultiItem.FinishStringTop(capacity): the entries beyond the `capacity` largest counts are folded into Tail; `ev` =
    those entries in the order of the (unstable) sort.  Checked: their number, and no folded count above a kept one. -/
def finishOk (cap : Nat) (r : Row α) (ev : List (Tag × Bool)) : Bool :=
  decide (ev.length = r.top.length - cap) &&
  decide ((ev.map (·.1)).eraseDups.length = ev.length) &&
  ev.all (fun kp => match r.top.lookup kp.1 with
    | none => false
    | some m => r.top.all (fun kv => (ev.any (fun q => q.1 == kv.1)) || decide (m.v.counter ≤ kv.2.v.counter)))

def finishTop (cap : Nat) (a : AgentRow α) (ev : List (Tag × Bool)) : Option (AgentRow α) :=
  if finishOk cap a.row ev then some { a with row := foldIntoTail a.row ev } else none

/-- everything the agent does to a row before it is sent -/
inductive AgentOp (α : Type) where
  | event (cap : Nat) (topTag : Tag) (e : Event α) (redirect : Bool) (rounds : List (List (Tag × Bool)))
  | finish (cap : Nat) (ev : List (Tag × Bool))

def agentStep (a : AgentRow α) : AgentOp α → Option (AgentRow α)
  | .event cap topTag e redirect rounds => rowEventCap cap a topTag e redirect rounds
  | .finish cap ev => finishTop cap a ev

def agentRun : AgentRow α → List (AgentOp α) → Option (AgentRow α)
  | a, [] => some a
  | a, op :: ops => match agentStep a op with
    | none => none
    | some a' => agentRun a' ops

end

/-! ### Key.MarshalAppend — the identity of a row in MultiItemMap (agent buckets and aggregator shards)

  Fixed-width fields (timestamp, metric, tag count, tags: little-endian 4-byte words) are kept as numbers (their byte
  encoding is trusted to be injective); the string-tag section is modelled byte for byte, including the quirk that the
  strings start AT the `#stags` byte (`stagsPos := tagsPos + tagsCount*4`), overwriting it, which leaves one unused zero
  byte at the end.  `skipEmpty` is the seeded variant C02-r5-1 (unset string tags before the last set one take no space). -/

structure Marshalled where
  ts : Nat
  metric : Int
  tags : List Int          -- tagsCount = tags.length
  stagBytes : List Char    -- everything after the tags
deriving DecidableEq, Repr

def nul : Char := Char.ofNat 0

/-- zero-terminated strings one after another -/
def terminated (l : List Str) : List Char := l.flatMap (fun s => s ++ [nul])

def stagSection (skipEmpty : Bool) (stags : List Str) : List Char :=
  if (dropTrailing (fun (x : Str) => x.isEmpty) stags).isEmpty then [nul]   -- only the `#stags = 0` byte
  else
    terminated ((dropTrailing (fun (x : Str) => x.isEmpty) stags).filter (fun s => !(skipEmpty && s.isEmpty))) ++ [nul]

def marshalKeyV (skipEmpty : Bool) (k : Key) : Marshalled :=
  ⟨k.ts, k.metric, dropTrailing (fun x => x == 0) k.tags, stagSection skipEmpty k.stags⟩

/-- Key.MarshalAppend of the tree -/
def marshalKey (k : Key) : Marshalled := marshalKeyV false k

end SH.Transfer
