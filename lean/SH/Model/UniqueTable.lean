/-
  SH.Model.UniqueTable — the open-addressing layer of internal/data_model/ch_unique.go (property C04), concretely:
  `buf` as an array of 2^sizeDegree slots (0 = empty), place / linear probing with wrap-around, insertImpl,
  reinsertImpl, rehash (both loops: the pass over the table and "process the first collision resolution chain once
  again"), resize (the relocation loop `for i := 0; i < oldSize || buf[i] != 0; i++`), shrinkIfNeed, insertHash,
  Merge (walks rhs.buf in slot order), MarshallAppend (slot order), UmMarshall/ReadFrom, MergeRead.

  SH.Model.Unique is the abstraction of this file (buf ↦ the set of stored values); Props/C04 Part 4 relates the two.
  The compiled driver replays every op on this model as well and compares the slot-by-slot layout with the real table.

  Loops that are unbounded in Go get fuel = number of slots (a probe that finds no free slot, which the code excludes
  by keeping the table at most half full, stops instead of spinning).
  `ResizeV.oldOnly` is the relocation loop shortened to `i < oldSize` (seeded change C03-2), kept for the counter-example.
-/
import SH.Model.Unique

namespace SH.UTable
open SH.Unique (Params limit good sdFor SdV)

structure Tb where
  alloc : Bool       -- buf != nil
  buf : Array Nat    -- 2^sd slots, 0 = empty
  cnt : Nat          -- itemsCount
  sd : Nat           -- sizeDegree
  k : Nat            -- skipDegree
  zero : Bool        -- hasZeroItem
deriving DecidableEq, Repr

def nilTb : Tb := { alloc := false, buf := #[], cnt := 0, sd := 0, k := 0, zero := false }

def size (t : Tb) : Nat := 2 ^ t.sd

/-- Reset() -/
def reset (P : Params) : Tb :=
  { alloc := true, buf := Array.replicate (2 ^ P.initDeg) 0, cnt := 0, sd := P.initDeg, k := 0, zero := false }

def ensure (P : Params) (t : Tb) : Tb := if t.alloc then t else reset P

def get (t : Tb) (i : Nat) : Nat := t.buf.getD i 0
def put (t : Tb) (i v : Nat) : Tb := { t with buf := t.buf.setIfInBounds i v }

/-- `int(x>>uniquesHashBitsForSkip) & ch.mask()` -/
def place (P : Params) (t : Tb) (x : Nat) : Nat := (x / 2 ^ (P.bits - P.maxDeg)) % 2 ^ t.sd

/-- `(placeValue + 1) & ch.mask()` -/
def next (t : Tb) (p : Nat) : Nat := (p + 1) % 2 ^ t.sd

def maxFill (t : Tb) : Nat := 2 ^ (t.sd - 1)

/-- first slot, probing from `p`, that is empty or holds `x` (none: table full of other values) -/
def probe (t : Tb) (x : Nat) : Nat → Nat → Option Nat
  | 0, _ => none
  | f + 1, p => if get t p = x ∨ get t p = 0 then some p else probe t x f (next t p)

/-- insertImpl -/
def insertImpl (P : Params) (t : Tb) (x : Nat) : Tb :=
  if x = 0 then (if t.zero then t else { t with cnt := t.cnt + 1, zero := true })
  else match probe t x (size t) (place P t x) with
    | none => t
    | some p => if get t p = x then t else
      let c := t.cnt + 1        -- (read before `put` so that the compiled model updates the array in place)
      { put t p x with cnt := c }

/-- reinsertImpl: first empty slot from place(x) -/
def reinsertImpl (P : Params) (t : Tb) (x : Nat) : Tb :=
  match probe t 0 (size t) (place P t x) with
  | none => t
  | some p => put t p x

/-- body of the first loop of rehash for slot `i` -/
def rehashStep (P : Params) (t : Tb) (i : Nat) : Tb :=
  let v := get t i
  if v = 0 then t
  else if !good t.k v then
    let c := t.cnt - 1
    { put t i 0 with cnt := c }
  else if i ≠ place P t v then reinsertImpl P (put t i 0) v
  else t

def rehashLoop1 (P : Params) : Nat → Nat → Tb → Tb
  | 0, _, t => t
  | f + 1, i, t => rehashLoop1 P f (i + 1) (rehashStep P t i)

/-- `for i := 0; i < bufSize && buf[i] != 0; i++ { if i != place(buf[i]) { move } }` -/
def rehashLoop2 (P : Params) : Nat → Nat → Tb → Tb
  | 0, _, t => t
  | f + 1, i, t =>
    let v := get t i
    if v = 0 then t
    else if i ≠ place P t v then rehashLoop2 P f (i + 1) (reinsertImpl P (put t i 0) v)
    else rehashLoop2 P f (i + 1) t

def rehash (P : Params) (t : Tb) : Tb := rehashLoop2 P (size t) 0 (rehashLoop1 P (size t) 0 t)

/-- seeded change C04-r6-1, kept for the counter-example only: the second pass is skipped when the last slot is free after
    the first pass ("a chain can only wrap around through the last slot") -/
def rehashLastSlotGuard (P : Params) (t : Tb) : Tb :=
  let t1 := rehashLoop1 P (size t) 0 t
  if get t1 (size t - 1) = 0 then t1 else rehashLoop2 P (size t) 0 t1

inductive ResizeV | full | oldOnly
deriving DecidableEq, Repr

/-- body of the relocation loop of resize for slot `i` -/
def resizeStep (P : Params) (t : Tb) (i : Nat) : Tb :=
  let x := get t i
  if x = 0 then t
  else if place P t x = i then t
  else match probe t x (size t) (place P t x) with
    | none => t
    | some q => if get t q = x then t else put (put t q x) i 0

def resizeLoop (v : ResizeV) (P : Params) (oldSize : Nat) : Nat → Nat → Tb → Tb
  | 0, _, t => t
  | f + 1, i, t =>
    if i < oldSize ∨ (v = .full ∧ get t i ≠ 0) then resizeLoop v P oldSize f (i + 1) (resizeStep P t i) else t

/-- resize(newSizeDegree): grow the buffer (new slots zero), then relocate -/
def resize (v : ResizeV) (P : Params) (t : Tb) (newSd : Nat) : Tb :=
  let t1 := { t with sd := newSd, buf := t.buf ++ Array.replicate (2 ^ newSd - t.buf.size) 0 }
  resizeLoop v P (size t) (2 ^ newSd) 0 t1

def thinLoop (P : Params) : Nat → Tb → Tb
  | 0, t => t
  | f + 1, t => if limit P < t.cnt then thinLoop P f (rehash P { t with k := t.k + 1 }) else t

def shrinkIfNeed (v : ResizeV) (P : Params) (t : Tb) : Tb :=
  if t.cnt ≤ maxFill t then t
  else if limit P < t.cnt then thinLoop P (P.bits + 1) t
  else resize v P t (t.sd + 1)

def insertHash (v : ResizeV) (P : Params) (t : Tb) (x : Nat) : Tb :=
  if good t.k x then shrinkIfNeed v P (insertImpl P t x) else t

/-- loop body of Merge for slot value `x` of rhs.buf -/
def mergeSlot (v : ResizeV) (P : Params) (ch : Tb) (x : Nat) : Tb :=
  if x ≠ 0 ∧ good ch.k x = true then shrinkIfNeed v P (insertImpl P ch x) else ch

/-- ChUnique.Merge -/
def merge (v : ResizeV) (P : Params) (ch rhs : Tb) : Tb :=
  if !rhs.alloc then ch
  else
    let c0 := ensure P ch
    let c1 := if c0.k < rhs.k then rehash P { c0 with k := rhs.k } else c0
    let c2 := if !c1.zero && rhs.zero then shrinkIfNeed v P { c1 with zero := true, cnt := c1.cnt + 1 } else c1
    rhs.buf.toList.foldl (mergeSlot v P) c2

/-- MarshallAppend: skipDegree, itemsCount, [0], the non-empty slots in slot order -/
def marshal (t : Tb) : Unique.Wire :=
  if t.alloc then
    { k := t.k, ic := t.cnt, xs := (if t.zero then [0] else []) ++ t.buf.toList.filter (fun x => x != 0) }
  else { k := 0, ic := 0, xs := [] }

def readItem (P : Params) (t : Tb) (x : Nat) : Tb :=
  if x = 0 then { t with zero := true } else reinsertImpl P t x

/-- UmMarshall / ReadFrom -/
def unmarshal (w : SdV) (P : Params) (m : Unique.Wire) : Tb :=
  m.xs.foldl (readItem P)
    { alloc := true, buf := Array.replicate (2 ^ sdFor w P m.ic) 0, cnt := m.ic, sd := sdFor w P m.ic, k := m.k, zero := false }

/-- MergeRead -/
def mergeRead (v : ResizeV) (w : SdV) (P : Params) (ch : Tb) (m : Unique.Wire) : Tb :=
  if !ch.alloc then unmarshal w P m
  else
    let c1 := if ch.k < m.k then rehash P { ch with k := m.k } else ch
    let c2 := if 2 ^ c1.sd < m.ic then resize v P c1 (sdFor w P m.ic) else c1
    m.xs.foldl (insertHash v P) c2

/-- executable well-formedness: the right number of slots, itemsCount = occupied slots (+1 for zero), and every stored
    value is found AT ITS SLOT by the probe that insertImpl runs (reachable from its home slot without crossing an empty
    slot, and stored once) -/
def occupied (t : Tb) : Nat := (t.buf.toList.filter (fun x => x != 0)).length

def findsAll (P : Params) (t : Tb) : Bool :=
  (List.range (size t)).all (fun i => get t i == 0 || probe t (get t i) (size t) (place P t (get t i)) == some i)

def wfb (P : Params) (t : Tb) : Bool :=
  if !t.alloc then t.buf.size == 0 && t.cnt == 0 else
  t.buf.size == size t && t.cnt == occupied t + (if t.zero then 1 else 0) && findsAll P t

end SH.UTable
