/-
  SH.Model.Timescale — executable model of internal/data_model/timescale.go
  (GetTimescale, Timescale.GetLODs, StepForward, startOfLOD, endOfLOD, roundTime, mathDiv) and of
  internal/api/lod.go (mathDiv, roundTime — identical copies — and calcUTCOffset).

  Core Lean only. All times are `Int` seconds. Go's `time` package (zone rules) is DATA: the two calendar
  primitives the code uses for monthly steps,
      startOfMonth t = time.Date(y(t), m(t), 1, 0,0,0,0, loc)          (startOfLOD, step = _1M)
      nextMonth    t = time.Unix(t).In(loc).AddDate(0,1,0)              (StepForward, step = _1M)
  are the fields of `Cal`; the driver instantiates them from the list of month boundaries the Go harness
  observed for the range, the theorems quantify over every `Cal` satisfying `CalOK`.

  Tables and constants (lodLevels, lodLevelsV3Monthly, maxPoints, _1M, LODTables keys) come from the
  regenerated SH/Gen/C22.lean.
-/
import SH.Gen.C22

namespace SH.Timescale
open SH.Gen.C22

/-- the calendar as seen through Go's time package for one *time.Location -/
structure Cal where
  som : Int → Int
  next : Int → Int

/-- `mathDiv`: Go's `/` and `%` truncate (Int.tdiv / Int.tmod) -/
def sameSign (a b : Int) : Bool := (decide (0 ≤ a)) == (decide (0 ≤ b))

def mathDiv (a b : Int) : Int :=
  if sameSign a b || Int.tmod a b == 0 then Int.tdiv a b else Int.tdiv a b - 1

def roundTime (t step utcOffset : Int) : Int :=
  mathDiv (t + utcOffset) step * step - utcOffset

/-- seeded variant C22-r5-1 (NOT the code): `t - (t+utcOffset)%step` with Go's truncating `%` — rounds UP when t+utcOffset < 0 -/
def roundTimeTrunc (t step utcOffset : Int) : Int :=
  t - Int.tmod (t + utcOffset) step

def isMonth (step : Int) : Bool := step == monthStep

def stepForward (cal : Cal) (start step : Int) : Int :=
  if isMonth step then cal.next start else start + step

def startOfLOD (cal : Cal) (start step utcOffset : Int) : Int :=
  if isMonth step then cal.som start else roundTime start step utcOffset

/-- the loop of `endOfLOD`; `fuel` only makes it structurally recursive (see `endOfLOD`) -/
def endLoop (cal : Cal) (step : Int) (le : Bool) (end_ : Int) : Nat → Int → Nat → Int × Nat
  | 0, start, n => (start, n)
  | fuel + 1, start, n =>
    if start < end_ then
      if le && decide (end_ < stepForward cal start step) then (start, n)
      else endLoop cal step le end_ fuel (stepForward cal start step) (n + 1)
    else (start, n)

/-- `endOfLOD(start, step, end, le, loc)`. Every iteration advances `start` by at least one second (step ≥ 1,
    months are longer), so `end - start` iterations always suffice: the fuel never cuts a run short.
    (The Go `panic` for `step ≤ 0` is unreachable from GetTimescale: all steps come from the tables, which are positive.) -/
def endOfLOD (cal : Cal) (start step end_ : Int) (le : Bool) : Int × Nat :=
  endLoop cal step le end_ (end_ - start).toNat start 0

/-- TimescaleLOD (Version is always Version6) -/
structure LOD where
  step : Int
  len : Nat
  deriving DecidableEq, Repr

inductive Mode | range | instant | point | tags
  deriving DecidableEq, Repr

structure Args where
  start : Int
  end_ : Int
  step : Int
  now : Int
  width : Int
  mode : Mode
  extend : Bool
  utcOffset : Int
  /-- QueryStat.MetricOffset as a list of (metric resolution, offset) -/
  metrics : List (Int × Int)
  deriving Repr

inductive Err | outOfRange | lodRange | offset
  deriving DecidableEq, Repr

/-- the result `Timescale` (fields the property talks about) -/
structure TS where
  time : List Int
  lods : List LOD
  startX : Nat
  viewStartX : Nat
  viewEndX : Nat
  deriving DecidableEq, Repr

def TS.empty : TS := ⟨[], [], 0, 0, 0⟩

/-! ### query info -/

def isPoint (a : Args) : Bool := a.mode == Mode.point

/-- `maxOffset` (starts at 0, so negative offsets do not count) -/
def maxOffset (a : Args) : Int := a.metrics.foldl (fun m p => if m < p.2 then p.2 else m) 0

/-- `maxMetricRes` (starts at 1) -/
def maxMetricRes (a : Args) : Int := a.metrics.foldl (fun m p => if m < p.1 then p.1 else m) 1

def minStep (a : Args) : Int :=
  if isPoint a || decide (a.step < maxMetricRes a) then maxMetricRes a else a.step

def levelsFor (a : Args) : List (Int × List Int) :=
  if isMonth a.step then lodLevelsMonthly else lodLevels

/-! ### the inner loop over the steps of one level -/

inductive Inner
  | err
  | done (lod : LOD) (lodEnd : Int)
  deriving Repr

/-- `0 < lod.Step && lod.Step < step` — "step can not grow" -/
def grows (lod : LOD) (step : Int) : Bool := decide (0 < lod.step) && decide (lod.step < step)

/-- `lodStart`: rounded only while no LOD has been emitted yet -/
def lodStartOf (cal : Cal) (a : Args) (first : Bool) (start step : Int) : Int :=
  if first then startOfLOD cal start step a.utcOffset else start

/-- `n = resLen + lodLen + m` (0 for point queries, where `n` is never assigned) -/
def pointsToEnd (cal : Cal) (a : Args) (resLen : Nat) (lodStart step edge end_ : Int) : Nat :=
  if isPoint a then 0
  else resLen + (endOfLOD cal lodStart step edge false).2
        + (endOfLOD cal (endOfLOD cal lodStart step edge false).1 step end_ false).2

/-- `!pointQuery && maxPoints < n` -/
def overLimit (a : Args) (n : Nat) : Bool := !isPoint a && decide (maxPoints < (n : Int))

/-- `step <= minStep || (ScreenWidth != 0 && ScreenWidth < n)` -/
def fineEnough (a : Args) (step : Int) (n : Nat) : Bool :=
  decide (step ≤ minStep a) || (decide (a.width ≠ 0) && decide (a.width < (n : Int)))

/-- "use previous (larger) step to the end" -/
def usePrev (cal : Cal) (a : Args) (first : Bool) (start end_ : Int) (lod : LOD) : Inner :=
  let r := endOfLOD cal (lodStartOf cal a first start lod.step) lod.step end_ false
  .done ⟨lod.step, r.2⟩ r.1

/-- "use current step to the end" -/
def useCur (cal : Cal) (lodStart step edge end_ : Int) : Inner :=
  let r1 := endOfLOD cal lodStart step edge false
  let r2 := endOfLOD cal r1.1 step end_ false
  .done ⟨step, r1.2 + r2.2⟩ r2.1

def inner (cal : Cal) (a : Args) (first : Bool) (start end_ edge : Int) (resLen : Nat) :
    List Int → LOD → Int → Inner
  | [], lod, lodEnd => .done lod lodEnd
  | step :: rest, lod, lodEnd =>
    if grows lod step then inner cal a first start end_ edge resLen rest lod lodEnd
    else if overLimit a (pointsToEnd cal a resLen (lodStartOf cal a first start step) step edge end_) then
      (if lod.step == 0 then .err else usePrev cal a first start end_ lod)
    else if fineEnough a step (pointsToEnd cal a resLen (lodStartOf cal a first start step) step edge end_) then
      useCur cal (lodStartOf cal a first start step) step edge end_
    else
      inner cal a first start end_ edge resLen rest
        ⟨step, (endOfLOD cal (lodStartOf cal a first start step) step edge false).2⟩
        (endOfLOD cal (lodStartOf cal a first start step) step edge false).1

/-- `lod.Step <= 0 || lod.Step > _1M || lod.Len <= 0 || !(pointQuery || lod.Len <= maxPoints)` -/
def badLOD (a : Args) (lod : LOD) : Bool :=
  decide (lod.step ≤ 0) || decide (monthStep < lod.step) || lod.len == 0 ||
    !(isPoint a || decide ((lod.len : Int) ≤ maxPoints))

/-- `appendLOD` on the reversed list (head = most recent LOD) -/
def appendLOD : List LOD → LOD → List LOD
  | [], lod => [lod]
  | l :: ls, lod => if l.step == lod.step then ⟨l.step, l.len + lod.len⟩ :: ls else lod :: l :: ls

def edgeOf (a : Args) (relSwitch end_ : Int) : Int :=
  if decide (end_ < a.now - relSwitch) || isPoint a then end_ else a.now - relSwitch

/-- the loop over the LOD switches; `rlods` is `res.LODs` reversed, `lod` the "last LOD" variable -/
def outer (cal : Cal) (a : Args) (end_ : Int) :
    List (Int × List Int) → Int → Nat → List LOD → LOD → Except Err (List LOD)
  | [], _, _, rlods, _ => .ok rlods
  | sw :: rest, start, resLen, rlods, lod =>
    if start < end_ then
      if a.now - sw.1 < start then outer cal a end_ rest start resLen rlods lod
      else
        match inner cal a rlods.isEmpty start end_ (edgeOf a sw.1 end_) resLen sw.2 ⟨lod.step, 0⟩ 0 with
        | .err => .error .outOfRange
        | .done lod' lodEnd =>
          if badLOD a lod' then .error .lodRange
          else outer cal a end_ rest lodEnd (resLen + lod'.len) (appendLOD rlods lod') lod'
    else .ok rlods

/-- the LOD list of GetTimescale, before any extension point is added -/
def genLODs (cal : Cal) (a : Args) : Except Err (List LOD) :=
  (outer cal a (a.end_ - maxOffset a) (levelsFor a) (a.start - maxOffset a) 0 [] ⟨0, 0⟩).map List.reverse

/-! ### time generation -/

/-- `for j < len { Time = append(Time, t); t = StepForward(t) }` — returns the points and the final `t` -/
def genSeg (cal : Cal) (step : Int) : Nat → Int → List Int × Int
  | 0, t => ([], t)
  | n + 1, t => let r := genSeg cal step n (stepForward cal t step); (t :: r.1, r.2)

def genTime (cal : Cal) : List LOD → Int → List Int × Int
  | [], t => ([], t)
  | l :: ls, t =>
    let r := genSeg cal l.step l.len t
    let r' := genTime cal ls r.2
    (r.1 ++ r'.1, r'.2)

def bumpFirst (k : Nat) : List LOD → List LOD
  | [] => []
  | l :: ls => ⟨l.step, l.len + k⟩ :: ls

def bumpLast (k : Nat) : List LOD → List LOD
  | [] => []
  | [l] => [⟨l.step, l.len + k⟩]
  | l :: ls => l :: bumpLast k ls

/-- the offsets of all metrics must be multiples of the largest LOD step (Go `%`) -/
def offsetsOK (a : Args) (step0 : Int) : Bool := a.metrics.all (fun p => Int.tmod p.2 step0 == 0)

def pointTS (cal : Cal) (a : Args) (lods : List LOD) (step0 : Int) : TS :=
  let t0 := startOfLOD cal a.start step0 a.utcOffset
  let t := if decide (t0 < a.start) && !a.extend then stepForward cal t0 step0 else t0
  let t1 := (endOfLOD cal t step0 a.end_ (!a.extend)).1
  if t == t1 then TS.empty else ⟨[t, t1], lods, 0, 0, 1⟩

/-- number of points added on the left: (t < Start, extend) ↦ …; StartX always ends up 1 -/
def leftExtra (a : Args) (t0 : Int) : Nat :=
  if t0 < a.start then (if a.extend then 1 else 0) else (if a.extend then 2 else 1)

def viewStart (a : Args) : Nat := if a.extend then 2 else 1

/-- `t` after the left extensions: each one is `startOfLOD(t-1, step)` -/
def backN (cal : Cal) (step utcOffset : Int) : Nat → Int → Int
  | 0, t => t
  | n + 1, t => backN cal step utcOffset n (startOfLOD cal (t - 1) step utcOffset)

def rangeTS (cal : Cal) (a : Args) (lods : List LOD) (step0 : Int) : TS :=
  let t0 := startOfLOD cal a.start step0 a.utcOffset
  let k := leftExtra a t0
  let lods1 := bumpFirst k lods
  let r := genTime cal lods1 (backN cal step0 a.utcOffset k t0)
  let vsx := viewStart a
  let vex := if vsx < r.1.length then r.1.length else vsx
  if a.extend then ⟨r.1 ++ [r.2], bumpLast 1 lods1, 1, vsx, vex⟩
  else ⟨r.1, lods1, 1, vsx, vex⟩

def step0Of : List LOD → Int
  | [] => 0
  | l :: _ => l.step

def getTimescale (cal : Cal) (a : Args) : Except Err TS :=
  if decide (a.end_ ≤ a.start) || decide (a.step < 0) then .ok TS.empty
  else match genLODs cal a with
    | .error e => .error e
    | .ok lods =>
      if lods.isEmpty then .ok TS.empty
      else if !offsetsOK a (step0Of lods) then .error .offset
      else if isPoint a then .ok (pointTS cal a lods (step0Of lods))
      else .ok (rangeTS cal a lods (step0Of lods))

/-! ### Timescale.GetLODs -/

/-- `for i < lod.Len { end = StepForward(end) }` -/
def segEnd (cal : Cal) (step : Int) : Nat → Int → Int
  | 0, t => t
  | n + 1, t => segEnd cal step n (stepForward cal t step)

/-- (FromSec, ToSec, StepSec) -/
def lodRanges (cal : Cal) : List LOD → Int → List (Int × Int × Int)
  | [], _ => []
  | l :: ls, start =>
    (start, segEnd cal l.step l.len start, l.step) :: lodRanges cal ls (segEnd cal l.step l.len start)

def getLODs (cal : Cal) (utcOffset : Int) (ts : TS) (offset : Int) : List (Int × Int × Int) :=
  match ts.time with
  | [] => []
  | t0 :: _ =>
    lodRanges cal ts.lods (if offset != 0 then startOfLOD cal (t0 - offset) (step0Of ts.lods) utcOffset else t0)

/-- LOD.IndexOf(timestamp) for one returned range (FromSec, ToSec, StepSec): the index of the grid point `timestamp` inside the
    range, `none` for the "out of range" error. Monthly: `for t := FromSec; t < timestamp; n++ { t = <one month forward> }`,
    which is the loop of `endOfLOD` (le = false), then `t == timestamp`; the code after fixes/C22-indexof-month.diff steps with
    StepForward (= `cal.next`). Fixed steps: `d % step == 0 → d / step` with Go's truncating operators. -/
def indexOf (cal : Cal) (r : Int × Int × Int) (timestamp : Int) : Option Int :=
  if isMonth r.2.2 then
    (if (endOfLOD cal r.1 r.2.2 timestamp false).1 == timestamp then some ((endOfLOD cal r.1 r.2.2 timestamp false).2 : Int)
     else none)
  else
    (if Int.tmod (timestamp - r.1) r.2.2 == 0 then some (Int.tdiv (timestamp - r.1) r.2.2) else none)

/-- seeded variant C22-r3-1 (NOT the code): GetLODs without re-aligning the shifted start, `start := Time[0] - offset` -/
def getLODsNoRealign (cal : Cal) (ts : TS) (offset : Int) : List (Int × Int × Int) :=
  match ts.time with
  | [] => []
  | t0 :: _ => lodRanges cal ts.lods (t0 - offset)

/-! ### api/lod.go calcUTCOffset — the zone's offset at the Unix epoch is data -/

/-- 1970-01-01 is a Thursday (time.Weekday 4) -/
def calcUTCOffset (weekStartsAt zoneOffsetAtEpoch : Int) : Int :=
  let weekDay : Int := 4
  let weekDay := if weekDay == 0 && weekStartsAt != 0 then 7 else weekDay
  (weekDay - weekStartsAt) * 24 * 3600 + zoneOffsetAtEpoch

/-! ### calendar from observed month boundaries (driver) -/

def somOf (bounds : List Int) (t : Int) : Int :=
  bounds.foldl (fun acc b => if b ≤ t then b else acc) t

def nextOf : List Int → Int → Int
  | [], t => t + monthStep
  | b :: bs, t => if t < b then b else nextOf bs t

def calOfBounds (bounds : List Int) : Cal := ⟨somOf bounds, nextOf bounds⟩

end SH.Timescale
