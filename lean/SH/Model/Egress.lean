/-
  SH.Model.Egress — model of internal/balancer/egress.go + handler.go (property C31).

  What is modelled, function by function:
    handler.HandleMetricsBatchRaw        `handle`        (empty packet ignored; 4-byte LE length frame prepended)
    Egress.WritePacketLocked / Stats     `push` / `stats` (forwarded / dropped counters, Stats swaps them to zero)
    tcpPool.writeLocked                  `push`          (closed → drop; *primPtr, else *secPtr + reconnect request to
                                                          the old primary + pointer swap, else wouldBlockBytes += len, drop)
    pktBuffer.push                       `bufPush`       (full → Signal, refuse; else append, Signal)
    pktBuffer.pop / swap                 `popStart`, `wake`, `writeDone`, `timerFire`
    pktBuffer.close                      `bufClose`      (closed := true; Broadcast)
    tcpSender.reportWouldBlockIfAny      `report`
    sendLoop's `case <-s.reconCh`        `takeRecon`     (only the channel; the loop itself runs in the end-to-end tier)

  One model step = one critical section of the buffer mutex (DESIGN §4.5).  A sender blocked in `cond.Wait` is
  `pc = swap1 | swap2`; `Signal/Broadcast` on a parked sender sets `sig` (a pending wake-up); the op `wake` is the
  sender re-acquiring the mutex and re-evaluating the loop condition of `swap`.  Signals sent while nobody waits
  are lost, exactly like sync.Cond.

  `Variant.signal` is the code after the proposed fix (the AfterFunc callback of `swap` broadcasts after setting
  `timeout`); `Variant.silent` is the pinned code (the callback only sets the flag).  Props/C31 proves the
  no-lost-wake-up invariant for `.signal` and exhibits the stuck state of `.silent` by `decide`.

  The write callback `f` of `pop` is the environment: `wres ok` = `f` returned `(_, nil)`; `wres (err n)` = `f`
  returned `(n, err)`, n = number of packets to resend (sendLoop passes `len(bufs)-1`: the packet being written when
  the error happened is *not* resent — "not resend for last").

  Core Lean only.
-/
import SH.Model.Core

namespace SH.Egress

abbrev Pkt := List UInt8

structure Cfg where
  bufLen : Nat          -- bufferLen (200 in the pinned tree)
deriving DecidableEq, Repr

/-- `bufferLen*20/100` in the loop condition of `swap` -/
def thr (c : Cfg) : Nat := c.bufLen * 20 / 100

inductive Variant | signal | silent
deriving DecidableEq, Repr

inductive WRes | ok | err (n : Nat)
deriving DecidableEq, Repr

inductive PC | idle | swap1 | writing | swap2
deriving DecidableEq, Repr

/-- what happened to a packet the sender is done with -/
inductive Fate | written | skipped
deriving DecidableEq, Repr

structure Buf where
  w : List Pkt := []           -- w[0:wi]
  r : List Pkt := []           -- r[0:rm]
  ri : Nat := 0
  closed : Bool := false
  pc : PC := .idle
  timeout : Bool := false      -- the `timeout` local of the swap() call in progress
  sig : Bool := false          -- a Signal/Broadcast reached the parked sender and it has not re-checked yet
  /-- ghost: every packet accepted by `push`, in acceptance order -/
  acc : List Pkt := []
  /-- ghost: the packets the sender has finished with, in the order it finished with them -/
  done : List (Pkt × Fate) := []
  /-- ghost: number of write callbacks that returned an error -/
  nerr : Nat := 0
deriving DecidableEq, Repr

inductive Ev
  | accepted (i : Bool)                 -- push stored the packet in the buffer of sender i
  | dropped                             -- both refused (or pool closed)
  | ignored                             -- empty packet
  | write (i : Bool) (batch : List Pkt) -- pop called f(batch)
  | ret (i : Bool) (err : Bool)         -- pop returned
  | stats (fwd drop werr : Nat)
  | report (bytes : Nat)                -- a would-block report packet was written upstream
  | reportLost (bytes : Nat)
  | recon (took : Bool)
  | bad
deriving DecidableEq, Repr

def parked (b : Buf) : Bool := b.pc == .swap1 || b.pc == .swap2

/-- loop condition of `swap`: `b.wi < bufferLen*20/100 && !b.closed && !timeout` -/
def mustWait (c : Cfg) (b : Buf) : Bool := decide (b.w.length < thr c) && !b.closed && !b.timeout

/-- `cond.Signal()` / `Broadcast()`: only a parked sender notices -/
def signal (b : Buf) : Buf := if parked b then { b with sig := true } else b

/-- `swap` after its wait loop -/
def swapBody (b : Buf) : Buf := if b.closed then b else { b with r := b.w, w := [], ri := 0 }

def full (c : Cfg) (b : Buf) : Bool := decide (c.bufLen ≤ b.w.length)

/-- `pktBuffer.push`; the Bool is its `ok` result -/
def bufPush (c : Cfg) (b : Buf) (p : Pkt) : Buf × Bool :=
  if full c b then (signal b, false)
  else (signal { b with w := b.w ++ [p], acc := b.acc ++ [p] }, true)

def bufClose (b : Buf) : Buf := signal { b with closed := true }

/-- `pop` after its first `swap()` returned (or was not needed) -/
def afterSwap1 (i : Bool) (b : Buf) : Buf × List Ev :=
  if b.r.length ≤ b.ri then ({ b with pc := .idle, sig := false }, [.ret i false])
  else ({ b with pc := .writing, sig := false }, [.write i (b.r.drop b.ri)])

/-- `pop` after its final `swap()` returned -/
def afterSwap2 (i : Bool) (b : Buf) : Buf × List Ev := ({ b with pc := .idle, sig := false }, [.ret i false])

/-- entering `swap()`: a fresh `timeout` local, then the wait loop -/
def enterSwap1 (c : Cfg) (i : Bool) (b : Buf) : Buf × List Ev :=
  if mustWait c { b with timeout := false } then ({ b with timeout := false, pc := .swap1, sig := false }, [])
  else afterSwap1 i (swapBody { b with timeout := false })

def enterSwap2 (c : Cfg) (i : Bool) (b : Buf) : Buf × List Ev :=
  if mustWait c { b with timeout := false } then ({ b with timeout := false, pc := .swap2, sig := false }, [])
  else afterSwap2 i (swapBody { b with timeout := false })

/-- the sender calls `pop` (only when it is not already inside it) -/
def popStart (c : Cfg) (i : Bool) (b : Buf) : Buf × List Ev :=
  if b.pc != .idle then (b, [.bad])
  else if b.r.length ≤ b.ri then enterSwap1 c i b else afterSwap1 i b

/-- the parked sender got a wake-up, re-acquired the mutex and re-evaluates the loop condition -/
def wake (c : Cfg) (i : Bool) (b : Buf) : Buf × List Ev :=
  if !b.sig then (b, [])
  else if mustWait c b then ({ b with sig := false }, [])
  else match b.pc with
    | .swap1 => afterSwap1 i (swapBody b)
    | .swap2 => afterSwap2 i (swapBody b)
    | _ => ({ b with sig := false }, [])

def batch (b : Buf) : List Pkt := b.r.drop b.ri

/-- the write callback returned -/
def writeDone (c : Cfg) (i : Bool) (b : Buf) (res : WRes) : Buf × List Ev :=
  if b.pc != .writing then (b, [.bad])
  else match res with
    | .ok => enterSwap2 c i { b with ri := b.r.length, done := b.done ++ (batch b).map (·, Fate.written) }
    | .err n =>
      if (batch b).length ≤ n then (b, [.bad])   -- f never returns more than len(batch)-1 (see file header)
      else
        let k := (batch b).length - n - 1          -- packets handed over completely before the failing one
        ({ b with ri := b.r.length - n, pc := .idle, nerr := b.nerr + 1,
                  done := b.done ++ ((batch b).take k).map (·, Fate.written)
                            ++ (((batch b).drop k).take 1).map (·, Fate.skipped) },
         [.ret i true])

/-- the AfterFunc callback of the swap() in progress -/
def timerFire (v : Variant) (b : Buf) : Buf :=
  if !(parked b) || b.timeout then b
  else match v with
    | .signal => signal { b with timeout := true }
    | .silent => { b with timeout := true }

structure Pool where
  b0 : Buf := {}               -- pool.primary.buf
  b1 : Buf := {}               -- pool.secondary.buf
  prim : Bool := false         -- which sender *primPtr points to (false = pool.primary)
  closed : Bool := false
  fwd : Nat := 0               -- stats.forwardedPackets (since the last Stats())
  drop : Nat := 0              -- stats.droppedPackets
  werr : Nat := 0              -- stats.writeErrors
  wb : Nat := 0                -- pool.primary.wouldBlockBytes
  recon0 : Bool := false       -- a token sits in pool.primary.reconCh
  recon1 : Bool := false
  /-- ghosts -/
  nPush : Nat := 0             -- non-empty packets handed to WritePacketLocked
  fwdTotal : Nat := 0
  dropTotal : Nat := 0
  dropBytes : Nat := 0         -- bytes of packets refused because both buffers were full
  reported : Nat := 0          -- bytes announced upstream by report packets
  lostRep : Nat := 0           -- bytes whose report packet failed to be written
  /-- ghost: every accepted packet with the sender that accepted it, in the order `WritePacketLocked` accepted them -/
  accAll : List (Pkt × Bool) := []
deriving DecidableEq, Repr

def getB (s : Pool) (i : Bool) : Buf := if i then s.b1 else s.b0
def setB (s : Pool) (i : Bool) (b : Buf) : Pool := if i then { s with b1 := b } else { s with b0 := b }

def setRecon (s : Pool) (i : Bool) : Pool := if i then { s with recon1 := true } else { s with recon0 := true }
def getRecon (s : Pool) (i : Bool) : Bool := if i then s.recon1 else s.recon0
def clearRecon (s : Pool) (i : Bool) : Pool := if i then { s with recon1 := false } else { s with recon0 := false }

/-- `Egress.WritePacketLocked` → `tcpPool.writeLocked` -/
def push (c : Cfg) (s : Pool) (p : Pkt) : Pool × List Ev :=
  let s := { s with nPush := s.nPush + 1 }
  if s.closed then ({ s with drop := s.drop + 1, dropTotal := s.dropTotal + 1 }, [.dropped])
  else
    let a := s.prim
    if (bufPush c (getB s a) p).2 then
      ({ setB s a (bufPush c (getB s a) p).1 with fwd := s.fwd + 1, fwdTotal := s.fwdTotal + 1,
                                                         accAll := s.accAll ++ [(p, a)] }, [.accepted a])
    else
      let s1 := setB s a (bufPush c (getB s a) p).1
      if (bufPush c (getB s1 (!a)) p).2 then
        ({ setRecon (setB s1 (!a) (bufPush c (getB s1 (!a)) p).1) a with
             prim := !a, fwd := s.fwd + 1, fwdTotal := s.fwdTotal + 1, accAll := s.accAll ++ [(p, !a)] }, [.accepted (!a)])
      else
        ({ setB s1 (!a) (bufPush c (getB s1 (!a)) p).1 with
             wb := s.wb + p.length, drop := s.drop + 1, dropTotal := s.dropTotal + 1,
             dropBytes := s.dropBytes + p.length }, [.dropped])

def le32 (n : Nat) : List UInt8 :=
  [UInt8.ofNat (n % 256), UInt8.ofNat (n / 256 % 256), UInt8.ofNat (n / 65536 % 256), UInt8.ofNat (n / 16777216 % 256)]

/-- `binary.LittleEndian.PutUint32(h.pkt[:4], uint32(len(pkt)))` followed by the body -/
def frame (body : List UInt8) : Pkt := le32 body.length ++ body

/-- `handler.HandleMetricsBatchRaw` -/
def handle (c : Cfg) (s : Pool) (body : List UInt8) : Pool × List Ev :=
  if body.isEmpty then (s, [.ignored]) else push c s (frame body)

inductive Op
  | handle (body : List UInt8)
  | pop (i : Bool)
  | wres (i : Bool) (r : WRes)
  | timer (i : Bool)
  | wake (i : Bool)
  | close
  | stats
  | report (i : Bool) (connOk : Bool)
  | takeRecon (i : Bool)
deriving DecidableEq, Repr

def onBuf (s : Pool) (i : Bool) (r : Buf × List Ev) : Pool × List Ev := (setB s i r.1, r.2)

def step (v : Variant) (c : Cfg) (s : Pool) : Op → Pool × List Ev
  | .handle body => handle c s body
  | .pop i => onBuf s i (popStart c i (getB s i))
  | .wres i r => onBuf s i (writeDone c i (getB s i) r)
  | .timer i => (setB s i (timerFire v (getB s i)), [])
  | .wake i => onBuf s i (wake c i (getB s i))
  | .close =>
    -- Egress.Close: close(pool.closed), then pktBuffer.close of both senders
    ({ s with closed := true, b0 := bufClose s.b0, b1 := bufClose s.b1 }, [])
  | .stats => ({ s with fwd := 0, drop := 0 }, [.stats s.fwd s.drop s.werr])
  | .report i connOk =>
    -- only pool.primary.wouldBlockBytes is ever incremented (writeLocked uses p.primary, not *primPtr)
    if i then (s, [])
    else if s.wb = 0 then (s, [])
    else if connOk then ({ s with wb := 0, reported := s.reported + s.wb }, [.report s.wb])
    else ({ s with wb := 0, werr := s.werr + 1, lostRep := s.lostRep + s.wb }, [.reportLost s.wb])
  | .takeRecon i => (clearRecon s i, [.recon (getRecon s i)])

def run (v : Variant) (c : Cfg) (s : Pool) : List Op → Pool
  | [] => s
  | op :: ops => run v c (step v c s op).1 ops

def runEv (v : Variant) (c : Cfg) (s : Pool) : List Op → Pool × List Ev
  | [] => (s, [])
  | op :: ops =>
    let r := step v c s op
    let r2 := runEv v c r.1 ops
    (r2.1, r.2 ++ r2.2)

/-! ### the write deadline of `sendLoop` (a layer on top of the pool model)

  `sendLoop` keeps a bookkeeping variable `writeDeadline` and refreshes `conn.SetWriteDeadline(now + WriteTimeout)` at the top
  of an iteration, before `pop`, when the bookkeeping says so:
      pinned (before 18236950): `if s.cfg.WriteTimeout-time.Until(writeDeadline) > writeTimeoutAccuracy`
               — with the zero time `time.Until` saturates and the subtraction overflows to a negative value: on a new
               connection the branch is never taken, no deadline is ever armed (`Deadline.never`);
      fixed  : `if writeDeadline.IsZero() || …` and `writeDeadline = time.Time{}` after every successful reconnect
               (`Deadline.armed`);
      `Deadline.stale` (seeded C31-r3-2): like fixed, but the write-error path closes the connection WITHOUT resetting the
               bookkeeping and the reset after reconnect is gone: the new connection inherits a `fresh` bookkeeping value and gets
               no deadline until that value has aged (> writeTimeoutAccuracy).
  Time is abstracted to the three values of `Book`: `zero` (no deadline recorded), `fresh` (recorded less than
  writeTimeoutAccuracy ago), `aged`; `OpD.age i` is the passing of writeTimeoutAccuracy.
  `dl0/dl1` (ghost `armed`): the sender's CURRENT connection really has a write deadline that has not expired.
  An armed deadline is a timer: if the write callback is still blocked when it expires (`OpD.deadline i n`), `WriteTo`
  returns a timeout error with `n` packets left to resend — the same transition as `wres i (err n)`. After any failed write
  sendLoop counts a write error, closes the connection and dials a new one, which starts without a deadline.
-/

inductive Deadline | armed | never | stale
deriving DecidableEq, Repr

inductive Book | zero | fresh | aged
deriving DecidableEq, Repr

structure PoolD where
  p : Pool := {}
  dl0 : Bool := false
  dl1 : Bool := false
  bk0 : Book := .zero
  bk1 : Book := .zero
deriving DecidableEq, Repr

def getDl (s : PoolD) (i : Bool) : Bool := if i then s.dl1 else s.dl0
def setDl (s : PoolD) (i : Bool) (x : Bool) : PoolD := if i then { s with dl1 := x } else { s with dl0 := x }
def getBk (s : PoolD) (i : Bool) : Book := if i then s.bk1 else s.bk0
def setBk (s : PoolD) (i : Bool) (x : Book) : PoolD := if i then { s with bk1 := x } else { s with bk0 := x }

inductive OpD
  | base (op : Op)
  /-- the armed write deadline of sender `i` expires during a blocked write, `n` packets of the batch are left to resend -/
  | deadline (i : Bool) (n : Nat)
  /-- writeTimeoutAccuracy (2 s) passes for sender `i`: a `fresh` bookkeeping value becomes `aged` -/
  | age (i : Bool)
deriving DecidableEq, Repr

/-- the refresh condition at the top of a sendLoop iteration -/
def needsRefresh (d : Deadline) (b : Book) : Bool :=
  match d with
  | .never => b == .aged                       -- the zero time overflows: no refresh
  | _ => b == .zero || b == .aged

/-- the top of a sendLoop iteration, just before `pop` -/
def arm (d : Deadline) (s : PoolD) (i : Bool) : PoolD :=
  if needsRefresh d (getBk s i) then setBk (setDl s i true) i .fresh else s

/-- the top of a sendLoop iteration: only `pop` called from the loop position arms -/
def armFor (d : Deadline) (s : PoolD) : Op → PoolD
  | .pop i => if (getB s.p i).pc == .idle then arm d s i else s
  | _ => s

/-- a write of sender `i` failed: the connection is closed, the next one has no deadline; the bookkeeping is reset
    (`writeDeadline = time.Time{}` after the reconnect) — except in the seeded variant -/
def afterError (d : Deadline) (s : PoolD) (i : Bool) : PoolD :=
  match d with
  | .stale => setDl s i false
  | _ => setBk (setDl s i false) i .zero

/-- `some i`: the step was a write of sender `i` that returned an error to `pop` -/
def failedWrite : Op → List Ev → Option Bool
  | .wres i (.err _), evs => if evs == [.ret i true] then some i else none
  | _, _ => none

/-- the armed deadline of sender `i` can expire now: it is blocked in the write callback (`n` = packets left to resend) -/
def deadlineEnabled (s : PoolD) (i : Bool) (n : Nat) : Bool :=
  getDl s i && (getB s.p i).pc == .writing && decide (n < (batch (getB s.p i)).length)

def stepD (d : Deadline) (v : Variant) (c : Cfg) (s : PoolD) : OpD → PoolD × List Ev
  | .base op =>
    match failedWrite op (step v c s.p op).2 with
    | some i => ({ afterError d s i with p := (step v c s.p op).1 }, (step v c s.p op).2)
    | none => ({ armFor d s op with p := (step v c s.p op).1 }, (step v c s.p op).2)
  | .deadline i n =>
    if deadlineEnabled s i n then
      ({ afterError d s i with p := (step v c s.p (.wres i (.err n))).1 }, (step v c s.p (.wres i (.err n))).2)
    else (s, [])
  | .age i => (if getBk s i == .fresh then setBk s i .aged else s, [])

def runD (d : Deadline) (v : Variant) (c : Cfg) (s : PoolD) : List OpD → PoolD
  | [] => s
  | op :: ops => runD d v c (stepD d v c s op).1 ops

/-- the only move left to sender `i` when its upstream neither reads nor resets (the write callback never returns by
    itself): the expiry of an armed deadline. `none`: the sender stays inside `WriteTo` until the kernel gives up. -/
def stalledNext (s : PoolD) (i : Bool) : Option OpD :=
  if (getB s.p i).pc == .writing then
    (if getDl s i then some (.deadline i ((batch (getB s.p i)).length - 1)) else none)
  else none

/-! ### `addressPool` (the upstream addresses of one sender, tried round-robin by `tcpSender.reconnect`) -/

structure AddrPool where
  addrs : List Nat := []     -- addresses, named by their index in the resolved list
  head : Nat := 0
deriving DecidableEq, Repr

/-- `(*addressPool).pick`: the address at `head`, and `head` advances (pointer receiver: the advance is kept) -/
def pick (p : AddrPool) : AddrPool × Option Nat :=
  if p.addrs.length = 0 then (p, none)
  else ({ p with head := (p.head + 1) % p.addrs.length }, p.addrs[p.head]?)

/-- the results of `n` consecutive picks (= `n` consecutive reconnect attempts) -/
def pickN : Nat → AddrPool → List (Option Nat)
  | 0, _ => []
  | n + 1, p => (pick p).2 :: pickN n (pick p).1

end SH.Egress
