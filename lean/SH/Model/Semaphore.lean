/-
  SH.Model.Semaphore — model of internal/vkgo/semaphore/semaphore.go (property C29, second half).
  One step = one critical section under `s.mu`. Blocked `Acquire` calls are `(id, n)` waiters in FIFO order.
-/
namespace SH.Sem

structure S where
  size : Int
  cur : Int
  waiters : List (Nat × Int)    -- (acquire id, weight), front first
  doomed : List Nat             -- acquires with n > size: parked until their context is cancelled
deriving DecidableEq, Repr

def init (size : Int) : S := { size := size, cur := 0, waiters := [], doomed := [] }

/-- `notifyWaiters`: grant from the front while the front fits -/
def notify : List (Nat × Int) → Int → Int → (List (Nat × Int) × Int × List Nat)
  | [], _, cur => ([], cur, [])
  | (id, n) :: ws, size, cur =>
    if size - cur < n then ((id, n) :: ws, cur, [])
    else
      let (ws', cur', gs) := notify ws size (cur + n)
      (ws', cur', id :: gs)

def doNotify (s : S) : S × List Nat :=
  let (ws, cur, gs) := notify s.waiters s.size s.cur
  ({ s with waiters := ws, cur := cur }, gs)

inductive Op
  | acquire (id : Nat) (n : Int)
  | tryAcquire (id : Nat) (n : Int)
  | cancel (id : Nat)
  | release (n : Int)
  | setSize (n : Int)
  | force (n : Int)
deriving DecidableEq, Repr

/-- the fast-path test of `Acquire`/`TryAcquire` -/
def fits (s : S) (n : Int) : Bool := decide (n ≤ s.size - s.cur) && s.waiters.isEmpty
def tooBig (s : S) (n : Int) : Bool := decide (n > s.size)
def isDoomed (s : S) (id : Nat) : Bool := s.doomed.contains id
def room (s : S) : Bool := decide (s.size > s.cur)
def parkedIn (rest : List (Nat × Int)) (id : Nat) : Bool := rest.any (·.1 = id)

/-- result: new state, ids granted by this step (an immediate acquire counts), ids that failed -/
def step (s : S) : Op → S × List Nat × List Nat
  | .acquire id n =>
    if fits s n then ({ s with cur := s.cur + n }, [id], [])
    else if tooBig s n then ({ s with doomed := s.doomed ++ [id] }, [], [])
    else ({ s with waiters := s.waiters ++ [(id, n)] }, [], [])
  | .tryAcquire id n =>
    if fits s n then ({ s with cur := s.cur + n }, [id], [])
    else (s, [], [id])
  | .cancel id =>
    if isDoomed s id then ({ s with doomed := s.doomed.filter (· ≠ id) }, [], [id])
    else
      match s.waiters with
      | [] => (s, [], [])
      | (h, hn) :: rest =>
        if h = id then
          if room s then
            ((doNotify { s with waiters := rest }).1, (doNotify { s with waiters := rest }).2, [id])
          else ({ s with waiters := rest }, [], [id])
        else if parkedIn rest id then
          ({ s with waiters := (h, hn) :: rest.filter (·.1 ≠ id) }, [], [id])
        else (s, [], [])
  | .release n => ((doNotify { s with cur := s.cur - n }).1, (doNotify { s with cur := s.cur - n }).2, [])
  | .setSize n => ((doNotify { s with size := n }).1, (doNotify { s with size := n }).2, [])
  | .force n => ({ s with cur := s.cur + n }, [], [])

end SH.Sem
