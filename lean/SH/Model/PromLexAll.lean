/-
  SH.Model.PromLexAll — byte-level model of the WHOLE lexer of internal/promql/parser/lex.go (property C28, lexical layer):
  lexStatements, lexInsideBraces, lexSpace, lexLineComment, the `[` … `]` mode with lexDuration, and the literal scanners of
  SH.Model.PromLex (strings, numbers, durations, words). `lexAll` yields the sequence of (token name, length of its text) the
  real `Lexer.NextItem` yields, ended by EOF or by the first lexer error. Tied to the code by the driver op `lexall` on every
  generated source text and every printed text. Core Lean only.
-/
import SH.Model.PromLex
import SH.Model.PromSyntax

namespace SH.PromLex
open SH.PromSyntax

structure LexState where
  brace : Bool := false        -- braceOpen
  bracket : Bool := false      -- bracketOpen
  gotColon : Bool := false
  depth : Nat := 0             -- parenDepth
  wantDur : Bool := false      -- the state function is lexDuration (right after `[`)
deriving DecidableEq, Repr

structure RawTok where
  name : String
  len : Nat
deriving DecidableEq, Repr

inductive LexEnd | eof | err
deriving DecidableEq, Repr

def isSpaceB (c : Nat) : Bool := c == 32 || c == 9 || c == 10 || c == 13
def isEolB (c : Nat) : Bool := c == 10 || c == 13

inductive Step
  | tok (name : String) (len : Nat) (rest : List Nat) (st : LexState)
  | skip (rest : List Nat) (st : LexState)          -- blanks
  | eof
  | err

def wordName (w : List Nat) : String := kindTokName (classifyKind (String.ofList (w.map Char.ofNat)))

/-- a quoted or raw string at the head of the input -/
def stepString (cs : List Nat) (st : LexState) : Step :=
  match lexStringTok cs with
  | some (t, rest) => .tok "STRING" t.length rest st
  | none => .err

def stepComment (cs : List Nat) (st : LexState) : Step :=
  let body := cs.takeWhile (fun c => !isEolB c)
  .tok "COMMENT" body.length (cs.dropWhile (fun c => !isEolB c)) st

/-- lexInsideBraces -/
def stepBraces (cs : List Nat) (st : LexState) : Step :=
  match cs with
  | [] => .err                                           -- unexpected end of input inside braces
  | c :: t =>
    if c = 35 then stepComment cs st
    else if isSpaceB c then .skip (t.dropWhile isSpaceB) st
    else if isAlnumB c then
      let w := cs.takeWhile isAlnumB
      .tok "IDENTIFIER" w.length (cs.dropWhile isAlnumB) st
    else if c = 44 then .tok "COMMA" 1 t st
    else if c = cDq ∨ c = cSq ∨ c = cBt then stepString cs st
    else if c = 61 then
      (match t with
       | 126 :: t' => .tok "EQL_REGEX" 2 t' st
       | _ => .tok "EQL" 1 t st)
    else if c = 33 then
      (match t with
       | 126 :: t' => .tok "NEQ_REGEX" 2 t' st
       | 61 :: t' => .tok "NEQ" 2 t' st
       | _ => .err)
    else if c = 123 then .err
    else if c = 125 then .tok "RIGHT_BRACE" 1 t { st with brace := false }
    else if c = 58 then .tok "BIND" 1 t st
    else if c = 36 then .tok "DOLLAR" 1 t st
    else if c = 64 then .tok "AT" 1 t st
    else .err

def stepNum (cs : List Nat) (st : LexState) : Step :=
  match lexNumOrDur cs with
  | .num n => .tok "NUMBER" n (cs.drop n) st
  | .dur n => .tok "DURATION" n (cs.drop n) st
  | .err => .err

/-- lexStatements (outside braces, not right after `[`) -/
def stepStatements (cs : List Nat) (st : LexState) : Step :=
  match cs with
  | [] => if st.depth ≠ 0 then .err else if st.bracket then .err else .eof
  | c :: t =>
    if c = 35 then stepComment cs st
    else if c = 44 then .tok "COMMA" 1 t st
    else if isSpaceB c then .skip (t.dropWhile isSpaceB) st
    else if c = 42 then .tok "MUL" 1 t st
    else if c = 47 then .tok "DIV" 1 t st
    else if c = 37 then .tok "MOD" 1 t st
    else if c = 43 then .tok "ADD" 1 t st
    else if c = 45 then .tok "SUB" 1 t st
    else if c = 94 then .tok "POW" 1 t st
    else if c = 61 then
      (match t with
       | 61 :: t' => .tok "EQLC" 2 t' st
       | 126 :: _ => .err
       | _ => .tok "EQL" 1 t st)
    else if c = 33 then
      (match t with
       | 61 :: t' => .tok "NEQ" 2 t' st
       | _ => .err)
    else if c = 60 then
      (match t with
       | 61 :: t' => .tok "LTE" 2 t' st
       | _ => .tok "LSS" 1 t st)
    else if c = 62 then
      (match t with
       | 61 :: t' => .tok "GTE" 2 t' st
       | _ => .tok "GTR" 1 t st)
    else if isDigitB c || (c == 46 && headDigitB t) then stepNum cs st
    else if c = cDq ∨ c = cSq ∨ c = cBt then stepString cs st
    else if isAlphaB c || c == 58 then
      if !st.bracket then
        let w := (lexWord cs).1
        .tok (wordName w) w.length (lexWord cs).2 st
      else if st.gotColon then .err
      else .tok "COLON" 1 t { st with gotColon := true }
    else if c = 40 then .tok "LEFT_PAREN" 1 t { st with depth := st.depth + 1 }
    else if c = 41 then (if st.depth = 0 then .err else .tok "RIGHT_PAREN" 1 t { st with depth := st.depth - 1 })
    else if c = 123 then .tok "LEFT_BRACE" 1 t { st with brace := true }
    else if c = 91 then
      (if st.bracket then .err
       else .tok "LEFT_BRACKET" 1 (t.dropWhile isSpaceB) { st with gotColon := false, bracket := true, wantDur := true })
    else if c = 93 then (if !st.bracket then .err else .tok "RIGHT_BRACKET" 1 t { st with bracket := false })
    else if c = 64 then .tok "AT" 1 t st
    else .err
where
  headDigitB : List Nat → Bool
    | d :: _ => isDigitB d
    | [] => false

/-- one step of the state machine -/
def lexStep (cs : List Nat) (st : LexState) : Step :=
  if st.wantDur then
    match lexDurationB cs with
    | .dur n => .tok "DURATION" n (cs.drop n) { st with wantDur := false }
    | _ => .err
  else if st.brace then stepBraces cs st
  else stepStatements cs st

/-- all tokens up to the end of input or the first error -/
def lexLoop : Nat → List Nat → LexState → List RawTok × LexEnd
  | 0, _, _ => ([], .err)
  | f + 1, cs, st =>
    match lexStep cs st with
    | .tok name len rest st' => let r := lexLoop f rest st'; (⟨name, len⟩ :: r.1, r.2)
    | .skip rest st' => lexLoop f rest st'
    | .eof => ([], .eof)
    | .err => ([], .err)

def lexAll (cs : List Nat) : List RawTok × LexEnd := lexLoop (2 * cs.length + 4) cs {}

end SH.PromLex
