/-
  SH.Model.PromSyntax — model of internal/promql/parser (property C28).

  * `Expr`/`Args`   the syntax tree of ast.go (position fields dropped).
  * `printExpr`     transliteration of the `String()` methods of printer.go, at the level of TOKENS: the result is
                    the token sequence the real lexer yields on the printed text (the harness checks exactly this).
                    `Variant.fixed` is printer.go after /verif/fixes/C28-printer-roundtrip.diff, `Variant.old` before it.
  * `parse`         a reference precedence-climbing parser over tokens for the grammar of parse.y as goyacc
                    resolves it (precedence/associativity table, keyword lists and function names come from
                    `SH.Gen.C28`, regenerated from /repo on every run). It accepts exactly when ParseExpr returns no
                    error and then yields the same tree; the semantic actions of parse.go (addOffset, setTimestamp,
                    newAggregateExpr, matrix_selector, number-literal sign folding …) are transliterated.

  * `wf` / `norm`   the shapes `parse` can return (hypothesis of SH.Props.C28.parse_print; the driver evaluates it on every
                    tree the model parser returns) and the tree it returns for printed text (`norm` keeps the matcher that
                    repeats the metric name once, last).

  Abstract (lexical facts, checked by the correspondence only): a NUMBER token carries its raw text, the value the
  parser's `number` gives it (`val`, magnitude as text) and the `@` timestamp in ms for either sign; a STRING token
  carries its unquoted value (hex) and whether it unquotes / compiles as a regexp; a DURATION token carries its
  seconds (`none` = parseDuration fails, which includes zero).
  Core Lean only.
-/
import SH.Model.Core
import SH.Gen.C28

namespace SH.PromSyntax
open SH.Gen

/-! ## operators and the precedence table of parse.y -/

inductive BinOp
  | ldefault | lor | land | lunless | eqlc | gte | gtr | lss | lte | neq | add | sub | mul | div | mod | atan2 | pow
deriving DecidableEq, Repr

def BinOp.yacc : BinOp → String
  | .ldefault => "LDEFAULT" | .lor => "LOR" | .land => "LAND" | .lunless => "LUNLESS"
  | .eqlc => "EQLC" | .gte => "GTE" | .gtr => "GTR" | .lss => "LSS" | .lte => "LTE" | .neq => "NEQ"
  | .add => "ADD" | .sub => "SUB" | .mul => "MUL" | .div => "DIV" | .mod => "MOD" | .atan2 => "ATAN2" | .pow => "POW"

def BinOp.all : List BinOp :=
  [.ldefault, .lor, .land, .lunless, .eqlc, .gte, .gtr, .lss, .lte, .neq, .add, .sub, .mul, .div, .mod, .atan2, .pow]

def BinOp.ofYacc? (s : String) : Option BinOp := BinOp.all.find? (fun o => o.yacc == s)

/-- operators written as words are keyword tokens (they can also name a metric or a label) -/
def BinOp.isWord : BinOp → Bool
  | .ldefault | .lor | .land | .lunless | .atan2 => true
  | _ => false

def tableLevel (n : String) : Nat :=
  match C28.precTable.find? (fun e => e.1 == n) with
  | some (_, l, _) => l
  | none => 0

def tableKind (n : String) : Nat :=
  match C28.precTable.find? (fun e => e.1 == n) with
  | some (_, _, k) => k
  | none => 0

def BinOp.prec (o : BinOp) : Nat := tableLevel o.yacc
def BinOp.rightAssoc (o : BinOp) : Bool := tableKind o.yacc == 1
/-- minimum precedence of the right operand: yacc shifts a following operator iff it binds tighter
    (or equally tight and the level is %right) -/
def rhsPrec (o : BinOp) : Nat := if o.rightAssoc then o.prec else o.prec + 1
/-- `unary_op expr %prec MUL`: the operand extends over operators that bind tighter than MUL -/
def unaryOperandPrec : Nat := tableLevel C28.unaryPrecTok + 1

/-! ## tokens -/

inductive WKind
  | ident | mident
  | kw (name : String)                                       -- keyword / aggregator / word operator, goyacc token name
  | num (val : Option String) (ms msneg : Option Int)        -- NUMBER
deriving DecidableEq, Repr

inductive Tok
  | lp | rp | lk | rk | lb | rb | comma | colon | eql | dollar | bind | att | eqlre | neqre
  | sym (o : BinOp)                                          -- ADD … POW, EQLC, NEQ, … written with symbols
  | word (k : WKind) (text : String)
  | lname (text : String)                                    -- IDENTIFIER lexed inside braces (lexInsideBraces: keywords are
                                                             -- ignored there, the word may start with a digit)
  | str (v : String) (uok rok : Bool)
  | dur (secs : Option Nat)
  | err                                                      -- lexer error (the token stream ends here)
deriving DecidableEq, Repr

def kindTokName : WKind → String
  | .ident => "IDENTIFIER" | .mident => "METRIC_IDENTIFIER" | .kw n => n | .num _ _ _ => "NUMBER"

def isDigitC (c : Char) : Bool := '0' ≤ c && c ≤ '9'
def isAlphaC (c : Char) : Bool := c == '_' || ('a' ≤ c && c ≤ 'z') || ('A' ≤ c && c ≤ 'Z')
/-- lex.go isLabel -/
def isLabel (s : String) : Bool := s != "" && s.toList.all (fun c => isAlphaC c || isDigitC c)

/-- which token the lexer (outside braces) makes of a word that came from a token: keyword table first
    (case-insensitive), numbers start with a digit or '.', a colon makes a metric identifier -/
def lowerS (s : String) : String := String.ofList (s.toList.map Char.toLower)

def classifyKind (s : String) : WKind :=
  match C28.keywords.lookup (lowerS s) with
  | some n => if n = "NUMBER" then .num none none none else .kw n
  | none =>
    match s.toList with
    | [] => .ident
    | c :: _ => if isDigitC c || c == '.' then .num none none none
                else if s.toList.contains ':' then .mident else .ident

def wordTok (s : String) : Tok := .word (classifyKind s) s

def kwTok (name : String) : Tok :=
  .word (.kw name) (match C28.keywords.find? (fun e => e.2 == name) with | some (w, _) => w | none => name)

def opTok (o : BinOp) : Tok := if o.isWord then kwTok o.yacc else .sym o

def wordOp? (n : String) : Option BinOp :=
  match BinOp.ofYacc? n with
  | some o => if o.isWord then some o else none
  | none => none

def binOpOfTok : Tok → Option BinOp
  | .sym o => some o
  | .word (.kw n) _ => wordOp? n
  | _ => none

/-! ## syntax tree -/

structure Num where
  neg : Bool
  mag : String        -- magnitude as the printer renders it ("Inf", "NaN" included)
deriving DecidableEq, Repr

inductive MatchTy | eq | ne | re | nre
deriving DecidableEq, Repr

structure Matcher where
  name : String
  ty : MatchTy
  val : String        -- hex of the value, "-" when empty
deriving DecidableEq, Repr

inductive AtMod | none | ts (ms : Int) | start | stop
deriving DecidableEq, Repr

structure Sel where
  name : String
  ms : List Matcher
  atm : AtMod
  off : Int
  offEx : List Int
deriving DecidableEq, Repr

structure BinMod where
  bool : Bool
  card : Nat          -- 0 one-to-one, 1 many-to-one (group_left), 2 one-to-many (group_right)
  on : Bool
  labels : List String
  incl : List String
deriving DecidableEq, Repr

mutual
inductive Expr
  | num (n : Num)
  | str (v : String)
  | vec (s : Sel)
  | mat (s : Sel) (range : Nat)
  | sub (e : Expr) (range step : Nat) (atm : AtMod) (off : Int)
  | par (e : Expr)
  | un (neg : Bool) (e : Expr)
  | bin (op : BinOp) (m : BinMod) (l r : Expr)
  | agg (op : String) (without : Bool) (grouping : List String) (args : Args)   -- args = [param,] expr
  | call (fn : String) (args : Args)
inductive Args
  | nil
  | cons (e : Expr) (rest : Args)
end

deriving instance DecidableEq for Expr, Args

def Args.length : Args → Nat
  | .nil => 0
  | .cons _ r => r.length + 1

/-- hex of the UTF-8 bytes, "-" when empty (the harness' `hx`) -/
def hexOfString (s : String) : String := showHex (s.toList.flatMap String.utf8EncodeChar)

def nameMatcher (name : String) : Matcher := ⟨"__name__", .eq, hexOfString name⟩

/-- parse.go assembleVectorSelector: the name becomes one more matcher -/
def mkSel (name : String) (ms : List Matcher) : Sel :=
  { name := name, ms := if name = "" then ms else ms ++ [nameMatcher name], atm := .none, off := 0, offEx := [] }

/-! ## printer (printer.go), token level -/

inductive Variant | fixed | old
deriving DecidableEq, Repr

def pad3 (n : Nat) : String :=
  if n < 10 then "00" ++ toString n else if n < 100 then "0" ++ toString n else toString n

/-- `%.3f` of ms/1000 -/
def fmt3 (n : Nat) : String := toString (n / 1000) ++ "." ++ pad3 (n % 1000)

def sepBy (sep : Tok) : List (List Tok) → List Tok
  | [] => []
  | x :: xs => match xs with
    | [] => x
    | _ :: _ => x ++ sep :: sepBy sep xs

def signToks (n : Int) : List Tok := if n < 0 then [.sym .sub] else []

/-- largest number of seconds model.ParseDuration accepts with the unit `s` (2^63 ns / 10^9, rounded down) -/
def maxSecs : Nat := 9223372036

/-- `<n>s` is a duration literal the parser accepts: parseDuration rejects zero, ParseDuration rejects more than maxSecs -/
def okSecs (n : Nat) : Bool := n != 0 && decide (n ≤ maxSecs)

/-- the DURATION token of `<n>s` (`none`: parseDuration fails) -/
def durTok (n : Nat) : Tok := .dur (if okSecs n then some n else none)

/-- `%ds` -/
def printDurS (n : Int) : List Tok := signToks n ++ [durTok n.natAbs]

def printAt : AtMod → List Tok
  | .none => []
  | .ts n => .att :: signToks n ++ [.word (.num (some (fmt3 n.natAbs)) (some n.natAbs) (some (-(n.natAbs : Int)))) (fmt3 n.natAbs)]
  | .start => [.att, kwTok "START", .lp, .rp]
  | .stop => [.att, kwTok "END", .lp, .rp]

/-- ` offset <d>`; before the fix the vector selector and the subquery printed the bare number of seconds -/
def printOffset (unit : Bool) (off : Int) : List Tok :=
  if off = 0 then []
  else if unit then kwTok "OFFSET" :: printDurS off
  else kwTok "OFFSET" :: signToks off ++ [.word (.num (some (toString off.natAbs)) none none) (toString off.natAbs)]

/-- ` offset [<d>, …]` (StatsHouse extension); not printed at all before the fix -/
def printOffEx (v : Variant) (l : List Int) : List Tok :=
  match v, l with
  | .old, _ => []
  | .fixed, [] => []
  | .fixed, l => kwTok "OFFSET" :: .lb :: sepBy .comma (l.map printDurS) ++ [.rb]

def matchTok : MatchTy → Tok
  | .eq => .eql | .ne => .sym .neq | .re => .eqlre | .nre => .neqre

def printMatcher (m : Matcher) : List Tok := [.lname m.name, matchTok m.ty, .str m.val true true]

/-- matchers the printer shows: the one that repeats the metric name is skipped
    (before the fix `__name__=""` was skipped as well when the selector has no name) -/
def shownMatchers (v : Variant) (s : Sel) : List Matcher :=
  if s.name = "" && v == .fixed then s.ms else s.ms.filter (fun m => m != nameMatcher s.name)

def nameToks (name : String) : List Tok := if name = "" then [] else [wordTok name]

def printSelHead (v : Variant) (s : Sel) : List Tok :=
  match shownMatchers v s with
  | [] => if s.name = "" && v == .fixed then [.lk, .rk] else nameToks s.name
  | m :: ms => nameToks s.name ++ .lk :: sepBy .comma ((m :: ms).map printMatcher) ++ [.rk]

def printSel (v : Variant) (s : Sel) : List Tok :=
  printSelHead v s ++ printAt s.atm ++ printOffEx v s.offEx ++ printOffset (v == .fixed) s.off

def printMat (v : Variant) (s : Sel) (range : Nat) : List Tok :=
  printSelHead v s ++ .lb :: durTok range :: .rb :: printAt s.atm ++ printOffEx v s.offEx ++ printOffset true s.off

def printSubSuffix (v : Variant) (range step : Nat) (a : AtMod) (off : Int) : List Tok :=
  match v with
  | .fixed => .lb :: durTok range :: .colon :: (if step = 0 then [] else [durTok step]) ++ .rb :: printAt a ++ printOffset true off
  | .old => .lb :: .err :: printAt a ++ printOffset false off      -- "[300:1]": the lexer stops with "missing unit character"

def numTok (mag : String) : Tok := .word (.num (some mag) none none) mag

def printNum (v : Variant) (n : Num) : List Tok :=
  if n.neg then [.sym .sub, numTok n.mag]
  else if n.mag = "Inf" && v == .old then [.sym .add, numTok n.mag]   -- fmt.Sprint(+Inf) = "+Inf"
  else [numTok n.mag]

def printLabels (ls : List String) : List Tok := .lp :: sepBy .comma (ls.map (fun l => [wordTok l])) ++ [.rp]

def showMatching (v : Variant) (m : BinMod) : Bool :=
  !m.labels.isEmpty || m.on || (v == .fixed && (m.card == 1 || m.card == 2))

def printCard (m : BinMod) : List Tok :=
  if m.card = 1 then kwTok "GROUP_LEFT" :: printLabels m.incl
  else if m.card = 2 then kwTok "GROUP_RIGHT" :: printLabels m.incl
  else []

def printBinMod (v : Variant) (m : BinMod) : List Tok :=
  (if m.bool then [kwTok "BOOL"] else []) ++
  (if showMatching v m then kwTok (if m.on then "ON" else "IGNORING") :: printLabels m.labels ++ printCard m else [])

def printAggMod (without : Bool) (grouping : List String) : List Tok :=
  if without then kwTok "WITHOUT" :: printLabels grouping
  else if grouping.isEmpty then [] else kwTok "BY" :: printLabels grouping

mutual
def printExpr (v : Variant) : Expr → List Tok
  | .num n => printNum v n
  | .str s => [.str s true true]
  | .vec s => printSel v s
  | .mat s r => printMat v s r
  | .sub e r st a o => printExpr v e ++ printSubSuffix v r st a o
  | .par e => .lp :: printExpr v e ++ [.rp]
  | .un neg e => .sym (if neg then .sub else .add) :: printExpr v e
  | .bin op m l r => printExpr v l ++ opTok op :: printBinMod v m ++ printExpr v r
  | .agg op wo gr args => kwTok op :: printAggMod wo gr ++ .lp :: printArgs v args ++ [.rp]
  | .call fn args => wordTok fn :: .lp :: printArgs v args ++ [.rp]
def printArgs (v : Variant) : Args → List Tok
  | .nil => []
  | .cons e rest => match rest with
    | .nil => printExpr v e
    | .cons _ _ => printExpr v e ++ .comma :: printArgs v rest
end

/-! ## parser: semantic actions of parse.go -/

/-- addOffset(e, offset, nil) -/
def addOffset (e : Expr) (o : Int) : Option Expr :=
  match e with
  | .vec s => if s.off ≠ 0 then none else some (.vec { s with off := o })
  | .mat s r => if s.off ≠ 0 then none else some (.mat { s with off := o } r)
  | .sub x r st a off => if off ≠ 0 then none else some (.sub x r st a o)
  | _ => none

/-- addOffset(e, 0, list): the list is appended for selectors and dropped for a subquery -/
def addOffsetList (e : Expr) (l : List Int) : Option Expr :=
  match e with
  | .vec s => if s.off ≠ 0 then none else some (.vec { s with offEx := s.offEx ++ l })
  | .mat s r => if s.off ≠ 0 then none else some (.mat { s with offEx := s.offEx ++ l } r)
  | .sub x r st a off => if off ≠ 0 then none else some (.sub x r st a off)
  | _ => none

/-- setTimestamp / setAtModifierPreprocessor -/
def setAt (e : Expr) (a : AtMod) : Option Expr :=
  match e with
  | .vec s => if s.atm ≠ .none then none else some (.vec { s with atm := a })
  | .mat s r => if s.atm ≠ .none then none else some (.mat { s with atm := a } r)
  | .sub x r st a' off => if a' ≠ .none then none else some (.sub x r st a off)
  | _ => none

def AtMod.isTs : AtMod → Bool
  | .ts _ => true
  | _ => false

/-- action of matrix_selector: a vector selector becomes a range selector (the step is ignored), anything else a subquery -/
def mkRange (e : Expr) (range step : Nat) : Option Expr :=
  match e with
  | .vec s => if s.off ≠ 0 || !s.offEx.isEmpty then none else if s.atm.isTs then none else some (.mat s range)
  | e => some (.sub e range step .none 0)

/-- unary_expr action: a sign in front of a number literal is folded into it -/
def negNum (n : Num) : Num := if n.mag = "NaN" then n else { n with neg := !n.neg }

def mkUnary (neg : Bool) (e : Expr) : Expr :=
  match e with
  | .num n => if neg then .num (negNum n) else .num n
  | e => .un neg e

def paramAggs : List String := ["TOPK", "BOTTOMK", "COUNT_VALUES", "QUANTILE"]   -- lex.go IsAggregatorWithParam
def desiredArgs (op : String) : Nat := if paramAggs.contains op then 2 else 1

/-- newAggregateExpr -/
def mkAgg (op : String) (wo : Bool) (ls : List String) (args : Args) (ts : List Tok) : Option (Expr × List Tok) :=
  if args.length = desiredArgs op then some (.agg op wo ls args, ts) else none

/-! ## parser: token-level helpers without recursion into expressions -/

def labelOfTok : Tok → Option String
  | .word k t => if C28.maybeLabelToks.contains (kindTokName k) && isLabel t then some t else none
  | _ => none

/-- grouping_label_list followed by `)` or `,)` -/
def parseLabelList : List Tok → Option (List String × List Tok)
  | t :: .rp :: ts => match labelOfTok t with
    | some l => some ([l], ts)
    | none => none
  | t :: .comma :: .rp :: ts => match labelOfTok t with
    | some l => some ([l], ts)
    | none => none
  | t :: .comma :: ts => match labelOfTok t, parseLabelList ts with
    | some l, some (ls, ts') => some (l :: ls, ts')
    | _, _ => none
  | _ => none

/-- grouping_labels -/
def parseLabels : List Tok → Option (List String × List Tok)
  | .lp :: .rp :: ts => some ([], ts)
  | .lp :: ts => parseLabelList ts
  | _ => none

def matchTyOfTok : Tok → Option MatchTy
  | .eql => some .eq | .sym .neq => some .ne | .eqlre => some .re | .neqre => some .nre
  | _ => none

def MatchTy.isRegex : MatchTy → Bool
  | .re | .nre => true
  | _ => false

/-- newLabelMatcher / newLabelMatcherInternal: the string must unquote, a regexp must compile -/
def mkMatcher (name : String) (op : Tok) (v : String) (uok rok : Bool) (ts : List Tok) : Option (Matcher × List Tok) :=
  match matchTyOfTok op with
  | none => none
  | some ty => if !uok then none else if ty.isRegex && !rok then none else some (⟨name, ty, v⟩, ts)

/-- label_matcher -/
def parseMatcher : List Tok → Option (Matcher × List Tok)
  | .att :: .lname n :: op :: .str v uok rok :: ts => mkMatcher ("__" ++ n ++ "__") op v uok rok ts
  | .lname n :: .bind :: .dollar :: .lname v :: ts =>
      some (⟨"__bind__", .eq, hexOfString (n ++ ":" ++ v)⟩, ts)
  | .lname n :: op :: .str v uok rok :: ts => mkMatcher n op v uok rok ts
  | _ => none

/-- label_match_list followed by `}` or `,}` -/
def parseMatcherList : Nat → List Tok → Option (List Matcher × List Tok)
  | 0, _ => none
  | f + 1, ts => match parseMatcher ts with
    | none => none
    | some (m, .rk :: ts') => some ([m], ts')
    | some (m, .comma :: .rk :: ts') => some ([m], ts')
    | some (m, .comma :: ts') => match parseMatcherList f ts' with
      | some (ms, ts'') => some (m :: ms, ts'')
      | none => none
    | some _ => none

/-- label_matchers, after the `{` -/
def parseMatchers (f : Nat) : List Tok → Option (List Matcher × List Tok)
  | .rk :: ts => some ([], ts)
  | ts => parseMatcherList f ts

def parseBool : List Tok → Bool × List Tok
  | .word (.kw n) t :: ts => if n = "BOOL" then (true, ts) else (false, .word (.kw n) t :: ts)
  | ts => (false, ts)

/-- the `group_left` / `group_right` part of group_modifiers; a following `(` always starts the label list -/
def parseGroup (b on : Bool) (ls : List String) : List Tok → Option (BinMod × List Tok)
  | .word (.kw n) t :: ts =>
    if n = "GROUP_LEFT" || n = "GROUP_RIGHT" then
      match ts with
      | .lp :: _ => match parseLabels ts with
        | some (inc, ts') => some (⟨b, if n = "GROUP_LEFT" then 1 else 2, on, ls, inc⟩, ts')
        | none => none
      | _ => some (⟨b, if n = "GROUP_LEFT" then 1 else 2, on, ls, []⟩, ts)
    else some (⟨b, 0, on, ls, []⟩, .word (.kw n) t :: ts)
  | ts => some (⟨b, 0, on, ls, []⟩, ts)

def parseOn (b : Bool) : List Tok → Option (BinMod × List Tok)
  | .word (.kw n) t :: ts =>
    if n = "ON" || n = "IGNORING" then
      match parseLabels ts with
      | some (ls, ts') => parseGroup b (n = "ON") ls ts'
      | none => none
    else some (⟨b, 0, false, [], []⟩, .word (.kw n) t :: ts)
  | ts => some (⟨b, 0, false, [], []⟩, ts)

/-- bin_modifier -/
def parseMods (ts : List Tok) : Option (BinMod × List Tok) := parseOn (parseBool ts).1 (parseBool ts).2

/-- offset_list followed by `]` -/
def parseOffList : List Tok → Option (List Int × List Tok)
  | .dur d :: .rb :: ts => match d with
    | some n => some ([(n : Int)], ts)
    | none => none
  | .sym .sub :: .dur d :: .rb :: ts => match d with
    | some n => some ([-(n : Int)], ts)
    | none => none
  | .dur d :: .comma :: ts => match d, parseOffList ts with
    | some n, some (l, ts') => some ((n : Int) :: l, ts')
    | _, _ => none
  | .sym .sub :: .dur d :: .comma :: ts => match d, parseOffList ts with
    | some n, some (l, ts') => some (-(n : Int) :: l, ts')
    | _, _ => none
  | _ => none

inductive PStep
  | error
  | done
  | more (e : Expr) (ts : List Tok)

def stepOpt (r : Option Expr) (ts : List Tok) : PStep :=
  match r with
  | some e => .more e ts
  | none => .error

def atOfKw (n : String) : Option AtMod :=
  if n = "START" then some .start else if n = "END" then some .stop else none

/-- one postfix modifier: offset_expr, step_invariant_expr (`@`), matrix_selector -/
def postfixStep (e : Expr) : List Tok → PStep
  | .word (.kw n) _ :: ts =>
    if n = "OFFSET" then
      match ts with
      | .dur (some d) :: ts' => stepOpt (addOffset e d) ts'
      | .sym .sub :: .dur (some d) :: ts' => stepOpt (addOffset e (-(d : Int))) ts'
      | .lb :: ts' => match parseOffList ts' with
        | some (l, ts'') => stepOpt (addOffsetList e l) ts''
        | none => .error
      | _ => .error
    else .done
  | .att :: ts =>
    match ts with
    | .word (.num (some _) (some ms) _) _ :: ts' => stepOpt (setAt e (.ts ms)) ts'
    | .sym .add :: .word (.num (some _) (some ms) _) _ :: ts' => stepOpt (setAt e (.ts ms)) ts'
    | .sym .sub :: .word (.num (some _) _ (some ms)) _ :: ts' => stepOpt (setAt e (.ts ms)) ts'
    | .word (.kw n) _ :: .lp :: .rp :: ts' => match atOfKw n with
      | some a => stepOpt (setAt e a) ts'
      | none => .error
    | _ => .error
  | .lb :: ts =>
    match ts with
    | .dur (some d) :: .rb :: ts' => stepOpt (mkRange e d 0) ts'
    | .dur (some d) :: .colon :: .rb :: ts' => stepOpt (mkRange e d 0) ts'
    | .dur (some d) :: .colon :: .dur (some _) :: .rb :: ts' => stepOpt (mkRange e d 1) ts'   -- `COLON duration {$$ = 1}`
    | _ => .error
  | _ => .done

/-- all postfix modifiers that follow an operand -/
def parsePostfix : Nat → Expr → List Tok → Option (Expr × List Tok)
  | 0, _, _ => none
  | f + 1, e, ts => match postfixStep e ts with
    | .error => none
    | .done => some (e, ts)
    | .more e' ts' => parsePostfix f e' ts'

def isAggOp (n : String) : Bool := C28.aggregateOpToks.contains n
def isMetricIdent (k : WKind) : Bool := C28.metricIdentToks.contains (kindTokName k)
def isFunction (n : String) : Bool := C28.functions.contains n

def isGroupingKw (n : String) : Bool := n = "BY" || n = "WITHOUT"

/-- after an aggregate_op token: `(`, `by` or `without` make it an aggregation, otherwise it is a metric name -/
def startsAgg : List Tok → Bool
  | .lp :: _ => true
  | .word (.kw n) _ :: _ => isGroupingKw n
  | _ => false

/-- vector_selector: metric_identifier [label_matchers] -/
def parseSelector (f : Nat) (name : String) : List Tok → Option (Expr × List Tok)
  | .lk :: ts => match parseMatchers f ts with
    | some (ms, ts') => some (.vec (mkSel name ms), ts')
    | none => none
  | ts => some (.vec (mkSel name []), ts)

/-! ## parser: expressions (fuel = recursion depth) -/

/-- function_call_body after the `(`; `pa` parses a non-empty argument list up to and including the `)` -/
def parseArgsWith (pa : List Tok → Option (Args × List Tok)) : List Tok → Option (Args × List Tok)
  | .rp :: ts => some (.nil, ts)
  | ts => pa ts

/-- the aggregate_modifier after the body, if any -/
def parseAggSuffix (op : String) (args : Args) : List Tok → Option (Expr × List Tok)
  | .word (.kw m) t :: ts =>
    if isGroupingKw m then
      match parseLabels ts with
      | some (ls, ts') => mkAgg op (m = "WITHOUT") ls args ts'
      | none => none
    else mkAgg op false [] args (.word (.kw m) t :: ts)
  | ts => mkAgg op false [] args ts

/-- aggregate_expr after the operator -/
def parseAggWith (pa : List Tok → Option (Args × List Tok)) (op : String) : List Tok → Option (Expr × List Tok)
  | .lp :: ts => match parseArgsWith pa ts with
    | some (args, ts') => parseAggSuffix op args ts'
    | none => none
  | .word (.kw m) _ :: ts =>
    if isGroupingKw m then
      match parseLabels ts with
      | some (ls, .lp :: ts') => match parseArgsWith pa ts' with
        | some (args, ts'') => mkAgg op (m = "WITHOUT") ls args ts''
        | none => none
      | _ => none
    else none
  | _ => none

/-- an operand that starts with a word: number_literal, function_call, aggregate_expr or vector_selector -/
def parseWordWith (pa : List Tok → Option (Args × List Tok)) (f : Nat) (k : WKind) (t : String) (ts : List Tok) :
    Option (Expr × List Tok) :=
  match k with
  | .num v _ _ => match v with
    | some mag => some (.num ⟨false, mag⟩, ts)
    | none => none
  | .ident => match ts with
    | .lp :: ts1 =>
      if isFunction t then
        match parseArgsWith pa ts1 with
        | some (args, ts2) => some (.call t args, ts2)
        | none => none
      else none
    | _ => parseSelector f t ts
  | .mident => parseSelector f t ts
  | .kw n =>
    if isAggOp n && startsAgg ts then parseAggWith pa n ts
    else if isMetricIdent (.kw n) then parseSelector f t ts
    else none

mutual
/-- expr with every binary operator of precedence ≥ p: unary_expr or an operand with its postfix modifiers, then the loop -/
def parseExpr : Nat → Nat → List Tok → Option (Expr × List Tok)
  | 0, _, _ => none
  | f + 1, p, ts => match ts with
    | .sym .add :: ts1 => match parseExpr f unaryOperandPrec ts1 with
      | some (x, ts2) => parseLoop f p (mkUnary false x) ts2
      | none => none
    | .sym .sub :: ts1 => match parseExpr f unaryOperandPrec ts1 with
      | some (x, ts2) => parseLoop f p (mkUnary true x) ts2
      | none => none
    | ts => match parseAtom f ts with
      | some (a, ts1) => match parsePostfix f a ts1 with
        | some (a', ts2) => parseLoop f p a' ts2
        | none => none
      | none => none

/-- the binary-operator loop: lhs is complete, continue while the next operator has precedence ≥ p -/
def parseLoop : Nat → Nat → Expr → List Tok → Option (Expr × List Tok)
  | 0, _, _, _ => none
  | f + 1, p, lhs, ts => match ts with
    | [] => some (lhs, [])
    | t :: ts1 => match binOpOfTok t with
      | none => some (lhs, t :: ts1)
      | some o =>
        if o.prec < p then some (lhs, t :: ts1)
        else match parseMods ts1 with
          | none => none
          | some (m, ts2) => match parseExpr f (rhsPrec o) ts2 with
            | none => none
            | some (r, ts3) => parseLoop f p (.bin o m lhs r) ts3

/-- number_literal, string_literal, paren_expr, vector_selector, function_call, aggregate_expr -/
def parseAtom : Nat → List Tok → Option (Expr × List Tok)
  | 0, _ => none
  | f + 1, ts => match ts with
    | .word k t :: ts1 => parseWordWith (parseArgs1 f) f k t ts1
    | .str v uok _ :: ts1 => if uok then some (.str v, ts1) else none
    | .lp :: ts1 => match parseExpr f 0 ts1 with
      | some (e, .rp :: ts2) => some (.par e, ts2)
      | _ => none
    | .lk :: ts1 => parseSelector f "" (.lk :: ts1)
    | _ => none

/-- function_call_args followed by `)` -/
def parseArgs1 : Nat → List Tok → Option (Args × List Tok)
  | 0, _ => none
  | f + 1, ts => match parseExpr f 0 ts with
    | some (e, .rp :: ts1) => some (.cons e .nil, ts1)
    | some (e, .comma :: ts1) => match parseArgs1 f ts1 with
      | some (rest, ts2) => some (.cons e rest, ts2)
      | none => none
    | _ => none
end

def fuelFor (ts : List Tok) : Nat := 6 * ts.length + 16

def parseFuel (f : Nat) (ts : List Tok) : Option Expr :=
  match parseExpr f 0 ts with
  | some (e, []) => some e
  | _ => none

/-- ParseExpr at token level: `none` = the parser reports an error. (`Tok.err` matches no pattern below, so a token
    stream with a lexer error is rejected like in parser.Lex.) -/
def parse (ts : List Tok) : Option Expr := parseFuel (fuelFor ts) ts

/-! ## lexer-consistent token streams: what the real lexer can hand to the parser -/

def isNumKind : WKind → Bool
  | .num _ _ _ => true
  | _ => false

/-- outside braces the kind of a word token is the one the keyword table / first character / colon give its text -/
def wordOk (k : WKind) (t : String) : Bool :=
  match k with
  | .num _ _ _ => isNumKind (classifyKind t)
  | k => classifyKind t == k

/-- a token the lexer can produce, other than a duration that parseDuration rounds to 0 seconds or to more than maxSecs
    (known findings zero-duration and duration-out-of-range: `0s400ms` and `9223372036s800ms` are accepted, but no
    literal the parser accepts denotes the rounded value) -/
def tokOk : Tok → Bool
  | .word k t => wordOk k t
  | .dur (some n) => okSecs n
  | _ => true

/-! ## well-formed trees: the shapes the parser can produce (hypothesis of the round-trip theorem; the driver
     checks it on every tree the model parser returns) -/

/-- a grouping / matching label that the lexer turns back into a token the grammar accepts as a label -/
def okLabel (l : String) : Bool := labelOfTok (wordTok l) == some l

def wfMod (m : BinMod) : Bool :=
  decide (m.card ≤ 2) && (m.card != 0 || m.incl.isEmpty) && m.labels.all okLabel && m.incl.all okLabel


def normSel (s : Sel) : Sel :=
  if s.name = "" then s
  else { s with ms := s.ms.filter (fun m => m != nameMatcher s.name) ++ [nameMatcher s.name] }

mutual
/-- the tree `parse` yields for the printed text: the matcher that repeats the metric name is kept once, last -/
def norm : Expr → Expr
  | .num n => .num n
  | .str v => .str v
  | .vec s => .vec (normSel s)
  | .mat s r => .mat (normSel s) r
  | .sub e r st a o => .sub (norm e) r st a o
  | .par e => .par (norm e)
  | .un n e => .un n (norm e)
  | .bin o m l r => .bin o m (norm l) (norm r)
  | .agg op wo g a => .agg op wo g (normArgs a)
  | .call f a => .call f (normArgs a)
def normArgs : Args → Args
  | .nil => .nil
  | .cons e r => .cons (norm e) (normArgs r)
end

/-- `e` may be parsed as a whole where operators of precedence ≥ p are consumed -/
def fitsAt (p : Nat) : Expr → Bool
  | .bin o _ _ _ => decide (p ≤ o.prec)
  | _ => true

/-- a binary operator of precedence `q` that follows `e` is not absorbed by the right edge of `e` -/
def stopsBefore : Expr → Nat → Bool
  | .bin o _ _ r, q => decide (q < rhsPrec o) && stopsBefore r q
  | .un _ x, q => decide (q < unaryOperandPrec) && stopsBefore x q
  | .num n, q => !n.neg || decide (q < unaryOperandPrec)
  | _, _ => true

def isVec : Expr → Bool
  | .vec _ => true
  | _ => false

def isNum : Expr → Bool
  | .num _ => true
  | _ => false

/-- what a subquery range attaches to (a vector selector would become a range selector) -/
def isOperand : Expr → Bool
  | .num n => !n.neg
  | .str _ | .mat _ _ | .sub _ _ _ _ _ | .par _ | .agg _ _ _ _ | .call _ _ => true
  | _ => false

def okSel (s : Sel) : Bool :=
  (s.name == "" || isMetricIdent (classifyKind s.name)) && s.offEx.all (fun x => okSecs x.natAbs) &&
    decide (s.off.natAbs ≤ maxSecs)

mutual
def wf : Expr → Bool
  | .num n => !(n.neg && n.mag == "NaN")
  | .str _ => true
  | .vec s => okSel s
  | .mat s r => okSel s && okSecs r
  | .sub e r st _ o => wf e && isOperand e && okSecs r && decide (st ≤ 1) && decide (o.natAbs ≤ maxSecs)
  | .par e => wf e
  | .un _ x => wf x && !isNum x && fitsAt unaryOperandPrec x
  | .bin o m l r => wf l && wf r && wfMod m && fitsAt o.prec l && stopsBefore l o.prec && fitsAt (rhsPrec o) r
  | .agg op _ g a => isAggOp op && g.all okLabel && wfArgs a && a.length == desiredArgs op
  | .call f a => isFunction f && classifyKind f == .ident && wfArgs a
def wfArgs : Args → Bool
  | .nil => true
  | .cons e r => wf e && wfArgs r
end


end SH.PromSyntax
