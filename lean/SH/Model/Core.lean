/-
  SH.Model.Core — helpers shared by every executable model and driver.
  Core Lean only (no Mathlib): everything imported by a `Driver.*` module must stay core-only so
  that the drivers link as native executables.
-/
namespace SH

/-- Split a protocol line into space separated tokens (empty tokens dropped). -/
def tokens (s : String) : List String :=
  (s.splitOn " ").filter (fun t => t ≠ "")

def parseInt? (s : String) : Option Int := s.toInt?
def parseNat? (s : String) : Option Nat := s.toNat?

/-- comma separated list; "-" is the empty list -/
def parseList (s : String) : List String :=
  if s = "-" then [] else s.splitOn ","

def parseNatList? (s : String) : Option (List Nat) :=
  (parseList s).mapM (·.toNat?)

def parseIntList? (s : String) : Option (List Int) :=
  (parseList s).mapM (·.toInt?)

def showList {α} [ToString α] (l : List α) : String :=
  if l.isEmpty then "-" else ",".intercalate (l.map toString)

def hexDigit? (c : Char) : Option Nat :=
  if '0' ≤ c ∧ c ≤ '9' then some (c.toNat - '0'.toNat)
  else if 'a' ≤ c ∧ c ≤ 'f' then some (c.toNat - 'a'.toNat + 10)
  else if 'A' ≤ c ∧ c ≤ 'F' then some (c.toNat - 'A'.toNat + 10)
  else none

/-- hex string → bytes; "-" is the empty byte string -/
def parseHex? (s : String) : Option (List UInt8) :=
  if s = "-" then some [] else
  let rec go : List Char → List UInt8 → Option (List UInt8)
    | [], acc => some acc.reverse
    | [_], _ => none
    | a :: b :: rest, acc =>
      match hexDigit? a, hexDigit? b with
      | some x, some y => go rest (UInt8.ofNat (x * 16 + y) :: acc)
      | _, _ => none
  go s.toList []

def hexChar (n : Nat) : Char :=
  if n < 10 then Char.ofNat ('0'.toNat + n) else Char.ofNat ('a'.toNat + n - 10)

def showHex (b : List UInt8) : String :=
  if b.isEmpty then "-" else
  String.ofList (b.foldr (fun x acc => hexChar (x.toNat / 16) :: hexChar (x.toNat % 16) :: acc) [])

end SH
