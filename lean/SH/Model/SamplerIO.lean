/-
  SH.Model.SamplerIO — line-protocol front end of the sampler model (shared by drv_c05 and drv_c06).
  Parses the `cfg` / `item` / `draws` / `run` ops printed by go/C05/overlay/cmd/verif-c05 and renders the
  observations. Core Lean only. Sample factors are rendered as the IEEE-754 bits of `float64(num)/float64(den)`,
  which is how the Go code computes them (both operands are exactly representable in the generated domain).
-/
import SH.Model.Sampler

namespace SH.Sampler

structure DState where
  cfg : Cfg := {}
  budget : Int := 0
  items : List Item := []     -- reversed
  draws : List Nat := []
  ok : Bool := true

def kv? (key : String) (tok : String) : Option String :=
  if tok.startsWith (key ++ "=") then some (tok.drop (key.length + 1)).toString else none

def flag? (key tok : String) : Option Bool :=
  match kv? key tok with
  | some "1" => some true
  | some "0" => some false
  | _ => none

def parseCfg (toks : List String) : Option (Cfg × Int) :=
  match toks with
  | [mode, v, a, s, d, b, n, g, k, m, dn, dg, bud] => do
    let mode ← (match mode with | "rand" => some Mode.rand | "det" => some Mode.det | "quota" => some Mode.quota | _ => none)
    let variant ← (match kv? "v" v with | some "orig" => some Variant.orig | some "fix" => some Variant.fitKeep | _ => none)
    let agent ← flag? "agent" a
    let keepSingle ← flag? "single" s
    let disableNoSample ← flag? "disns" d
    let sBudgets ← flag? "budgets" b
    let sNs ← flag? "ns" n
    let sGroups ← flag? "grp" g
    let sKeys ← flag? "keys" k
    let hasMeta ← flag? "meta" m
    let defNs ← (kv? "dns" dn).bind String.toInt?
    let defGrp ← (kv? "dgrp" dg).bind String.toInt?
    let budget ← (kv? "budget" bud).bind String.toInt?
    some ({ variant, mode, agent, keepSingle, disableNoSample, sBudgets, sNs, sGroups, sKeys, hasMeta, defNs, defGrp }, budget)
  | _ => none

def parseItem (toks : List String) : Option Item :=
  match toks with
  | [id, size, whale, metric, budget, ns, grp, wns, wgrp, wm, nos, fki, tags, single, rank] => do
    let id ← id.toNat?
    let size ← size.toInt?
    let whale ← whale.toInt?
    let metric ← metric.toInt?
    let budget ← budget.toInt?
    let ns ← ns.toInt?
    let grp ← grp.toInt?
    let wNsTab ← wns.toInt?
    let wGrpTab ← wgrp.toInt?
    let wMetric ← wm.toInt?
    let noSample ← (match nos with | "1" => some true | "0" => some false | _ => none)
    let fki ← parseIntList? fki
    let tags ← parseIntList? tags
    let single ← (match single with | "1" => some true | "0" => some false | _ => none)
    let rank ← rank.toNat?
    some { id, size, whale, metric, budget, ns, grp, wNsTab, wGrpTab, wMetric, noSample, fki, tags, single, rank }
  | _ => none

def hex16 (n : Nat) : String :=
  String.ofList ((List.range 16).map (fun i => hexChar ((n >>> (4 * (15 - i))) % 16)))

def maxFloat32Bits : Nat := 0x47EFFFFFE0000000

def sfBits (e : Ev) : Nat :=
  if e.isMax then maxFloat32Bits else (Float.ofInt e.num / Float.ofInt e.den).toBits.toNat

def showEv (e : Ev) : String :=
  s!"ev {e.id} {if e.kept then "K" else "D"} {hex16 (sfBits e)} {if e.kept then e.quota else 0}"

def showG (g : GStat) : String :=
  s!"group {g.ns} {g.grp} {g.metric} b={g.budget}/{g.denom} keep={g.keepN}:{g.keepSum} discard={g.discN}:{g.discSum}"

def errsOf : List Act → List String
  | [] => []
  | .err w :: r => ("model-error " ++ w) :: errsOf r
  | _ :: r => errsOf r

/-- more than one decision for a row would show up as a repeated `ev` line -/
def renderRun (s : DState) : List String :=
  let items := s.items.reverse
  let acts := runBucket s.cfg items s.budget s.draws
  let es := (evs acts).toArray.qsort (fun a b => a.id < b.id) |>.toList
  errsOf acts ++ es.map showEv ++ (metricGroups s.cfg items s.budget s.draws).map showG

def dstep (s : DState) (toks : List String) : DState × List String :=
  match toks with
  | "cfg" :: rest =>
    match parseCfg rest with
    | some (cfg, b) => ({ cfg := cfg, budget := b }, [])
    | none => ({ s with ok := false }, ["bad-op"])
  | "item" :: rest =>
    match parseItem rest with
    | some it => ({ s with items := it :: s.items }, [])
    | none => ({ s with ok := false }, ["bad-op"])
  | ["draws", l] =>
    match parseNatList? l with
    | some ds => ({ s with draws := ds }, [])
    | none => ({ s with ok := false }, ["bad-op"])
  | ["run"] => if s.ok then (s, renderRun s) else (s, ["bad-op"])
  | _ => ({ s with ok := false }, ["bad-op"])

end SH.Sampler
