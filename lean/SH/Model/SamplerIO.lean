/-
  SH.Model.SamplerIO — line-protocol front end of the sampler model (shared by drv_c05 and drv_c06).
  Parses the `cfg` / `item` / `draws` / `run` ops printed by go/C05/overlay/cmd/verif-c05 and renders the
  observations. Core Lean only. Sample factors are rendered as the IEEE-754 bits of `float64(num)/float64(den)`,
  which is how the Go code computes them (both operands are exactly representable in the generated domain).
-/
import SH.Model.Sampler

namespace SH.Sampler

structure DState where
  cfg : Cfg := {}
  budget : Int := 0
  items : List Item := []     -- reversed
  arows : List ARow := []     -- reversed (agent cases)
  left : List Item := []      -- rows left in the SamplerBuffers by the previous `run` of this case
  draws : List Nat := []
  ok : Bool := true

def kv? (key : String) (tok : String) : Option String :=
  if tok.startsWith (key ++ "=") then some (tok.drop (key.length + 1)).toString else none

def flag? (key tok : String) : Option Bool :=
  match kv? key tok with
  | some "1" => some true
  | some "0" => some false
  | _ => none

def parseCfg (toks : List String) : Option (Cfg × Int) :=
  match toks with
  | [mode, v, a, s, d, b, n, g, k, m, dn, dg, bud] => do
    let mode ← (match mode with | "rand" => some Mode.rand | "det" => some Mode.det | "quota" => some Mode.quota | _ => none)
    let variant ← (match kv? "v" v with | some "orig" => some Variant.orig | some "fix" => some Variant.fitKeep | some "posids" => some Variant.posIds | _ => none)
    let agent ← flag? "agent" a
    let keepSingle ← flag? "single" s
    let disableNoSample ← flag? "disns" d
    let sBudgets ← flag? "budgets" b
    let sNs ← flag? "ns" n
    let sGroups ← flag? "grp" g
    let sKeys ← flag? "keys" k
    let hasMeta ← flag? "meta" m
    let defNs ← (kv? "dns" dn).bind String.toInt?
    let defGrp ← (kv? "dgrp" dg).bind String.toInt?
    let budget ← (kv? "budget" bud).bind String.toInt?
    some ({ variant, mode, agent, keepSingle, disableNoSample, sBudgets, sNs, sGroups, sKeys, hasMeta, defNs, defGrp }, budget)
  | _ => none

def parseItem (toks : List String) : Option Item :=
  match toks with
  | [id, size, whale, metric, budget, ns, grp, wns, wgrp, wm, nos, fki, tags, single, rank] => do
    let id ← id.toNat?
    let size ← size.toInt?
    let whale ← whale.toInt?
    let metric ← metric.toInt?
    let budget ← budget.toInt?
    let ns ← ns.toInt?
    let grp ← grp.toInt?
    let wNsTab ← wns.toInt?
    let wGrpTab ← wgrp.toInt?
    let wMetric ← wm.toInt?
    let noSample ← (match nos with | "1" => some true | "0" => some false | _ => none)
    let fki ← parseIntList? fki
    let tags ← parseIntList? tags
    let single ← (match single with | "1" => some true | "0" => some false | _ => none)
    let rank ← rank.toNat?
    some { id, size, whale, metric, budget, ns, grp, wNsTab, wGrpTab, wMetric, noSample, fki, tags, single, rank }
  | _ => none

/-- `acc=id/ns/grp/wNsTab/wGrpTab/w/nos/fki`: the meta carried by the row itself -/
def parseCarried (tok : String) : Option Carried :=
  match kv? "acc" tok with
  | some v =>
    match v.splitOn "/" with
    | [id, ns, grp, wns, wgrp, w, nos, fki] => do
      let metricID ← id.toInt?
      let ns ← ns.toInt?
      let grp ← grp.toInt?
      let wNsTab ← wns.toInt?
      let wGrpTab ← wgrp.toInt?
      let wMetric ← w.toInt?
      let noSample ← (match nos with | "1" => some true | "0" => some false | _ => none)
      let fki ← parseIntList? fki
      some { metricID, ns, grp, wNsTab, wGrpTab, wMetric, noSample, fki }
    | _ => none
  | none => none

/-- an item line, optionally followed by the carried meta; the model resolves which meta the row is sampled with -/
def parseItemAcc (toks : List String) : Option Item :=
  if toks.length == 16 then
    match parseItem (toks.take 15), parseCarried (toks.getD 15 "") with
    | some it, some c => some (resolveMeta it (some c))
    | _, _ => none
  else parseItem toks

def hex16 (n : Nat) : String :=
  String.ofList ((List.range 16).map (fun i => hexChar ((n >>> (4 * (15 - i))) % 16)))

def maxFloat32Bits : Nat := 0x47EFFFFFE0000000

def sfBits (e : Ev) : Nat :=
  if e.isMax then maxFloat32Bits else (Float.ofInt e.num / Float.ofInt e.den).toBits.toNat

def showEv (e : Ev) : String :=
  s!"ev {e.id} {if e.kept then "K" else "D"} {hex16 (sfBits e)} {if e.kept then e.quota else 0}"

def showG (g : GStat) : String :=
  s!"group {g.ns} {g.grp} {g.metric} b={g.budget}/{g.denom} keep={g.keepN}:{g.keepSum} discard={g.discN}:{g.discSum}"

def errsOf : List Act → List String
  | [] => []
  | .err w :: r => ("model-error " ++ w) :: errsOf r
  | _ :: r => errsOf r

/-- more than one decision for a row would show up as a repeated `ev` line -/
def renderRun (s : DState) : List String :=
  let items := s.items.reverse
  let acts := (runShared s.cfg s.left items s.budget s.draws).1
  let es := (evs acts).toArray.qsort (fun a b => a.id < b.id) |>.toList
  errsOf acts ++ es.map showEv ++ (metricGroups s.cfg items s.budget s.draws).map showG

/-! agent cases: per accounted metric, how many rows were kept with factor 1, kept with the metric's factor, dropped -/

structure MSum where
  metric : Int
  n : Nat := 0
  one : Nat := 0
  sampled : Nat := 0
  bits : Nat := 0
  drop : Nat := 0
  wsum : Int := 0   -- whale weights of the rows kept with factor 1

def MSum.add (m : MSum) (e : Ev) (whale : Int) : MSum :=
  if !e.kept then { m with n := m.n + 1, drop := m.drop + 1 }
  else if e.num == e.den && !e.isMax then { m with n := m.n + 1, one := m.one + 1, wsum := m.wsum + whale }
  else { m with n := m.n + 1, sampled := m.sampled + 1, bits := sfBits e }

def addSum (metric : Int) (e : Ev) (whale : Int) : List MSum → List MSum
  | [] => [({ metric := metric } : MSum).add e whale]
  | m :: r => if m.metric == metric then m.add e whale :: r else m :: addSum metric e whale r

def showMSum (m : MSum) : String :=
  s!"am {m.metric} n={m.n} one={m.one} sf={m.sampled} bits={hex16 m.bits} drop={m.drop} wsum={m.wsum}"

def renderAgent (s : DState) (shard minB sumB maxHalf : Int) : List String :=
  let rows := s.arows.reverse
  let budget := agentBudget shard minB sumB maxHalf
  let acts := agentBucket s.cfg rows budget s.draws
  let metricOf (id : Nat) : Int := ((rows.find? (fun r => r.item.id == id)).map (·.item.metric)).getD 0
  let whaleOf (id : Nat) : Int := ((rows.find? (fun r => r.item.id == id)).map (·.item.whale)).getD 0
  let sums := (evs acts).foldl (fun acc e => addSum (metricOf e.id) e (whaleOf e.id) acc) []
  let sorted := sums.toArray.qsort (fun a b => a.metric < b.metric) |>.toList
  errsOf acts ++ sorted.map showMSum

/-! host budget cases (calcHostMetricBudgets): the real code draws its budget roundings from an unseeded generator, so the
    model is run for every round-up pattern of the first `k` roundings and the pattern that reproduces the observation is
    printed (the all-floor pattern if none does) -/

def hostLine (items : List Item) (draws : List Nat) (cfg : Cfg) (budget : Int) : String :=
  let acts := runBucket cfg items budget draws
  let es := (evs acts).toArray.qsort (fun a b => a.id < b.id) |>.toList
  ",".intercalate (es.map (fun e => s!"{e.id}:{hostBudgetOf items e}"))

def patternDraws (k : Nat) (p : Nat) : List Nat :=
  (List.range k).map (fun i => if (p >>> i) % 2 == 1 then 0 else two53 - 1)

def findPattern (items : List Item) (cfg : Cfg) (budget : Int) (k : Nat) (expected : String) : Nat → Nat → Option String
  | 0, _ => none
  | fuel + 1, p =>
    if p ≥ 2 ^ k then none
    else
      let l := hostLine items (patternDraws k p ++ List.replicate 64 (two53 - 1)) cfg budget
      if l == expected then some l else findPattern items cfg budget k expected fuel (p + 1)

def renderHost (s : DState) (k : Nat) (expected : String) : List String :=
  let items := s.items.reverse
  let base := hostLine items (List.replicate (k + 64) (two53 - 1)) s.cfg s.budget
  match findPattern items s.cfg s.budget k expected (2 ^ k) 0 with
  | some l => ["hb " ++ l]
  | none => ["hb " ++ base]

/-! size estimate cases -/

def parseVal (t : String) : Option ValDesc :=
  match parseNatList? t with
  | some [e, a, b, c, d, e2, f, g, h, i, j, k, l, m, n] =>
    some { empty := e == 1, maxHostI := a == 1, maxHostS := b, minEqMax := c == 1, minHostI := d == 1, minHostS := e2, mcEqMax := f == 1,
           mcHostI := g == 1, mcHostS := h, hllItems := i, hasDigest := j == 1, centroids := k, valueSet := l == 1,
           minNonZero := m == 1, singleTL := n == 1 }
  | _ => none

def parseTop (t : String) : Option (Nat × ValDesc) :=
  match t.splitOn ":" with
  | [l, v] => do
    let l ← l.toNat?
    let v ← parseVal v
    some (l, v)
  | _ => none

def renderSize (toks : List String) : List String :=
  match toks with
  | tags :: stags :: ts :: tail :: tops =>
    match parseNatList? tags, parseNatList? stags, parseVal tail, tops.mapM parseTop with
    | some tags, some stags, some tail, some tops =>
      [s!"sz key={keyTLSize tags stags (ts == "1")} item={itemTLSize tail tops} row={itemRowSize stags tail tops}"]
    | _, _, _, _ => ["bad-op"]
  | _ => ["bad-op"]

def dstep (s : DState) (toks : List String) : DState × List String :=
  match toks with
  | "cfg" :: rest =>
    match parseCfg rest with
    | some (cfg, b) => ({ cfg := cfg, budget := b, left := s.left }, [])
    | none => ({ s with ok := false }, ["bad-op"])
  | "item" :: rest =>
    match parseItemAcc rest with
    | some it => ({ s with items := it :: s.items }, [])
    | none => ({ s with ok := false }, ["bad-op"])
  | ["draws", l] =>
    match parseNatList? l with
    | some ds => ({ s with draws := ds }, [])
    | none => ({ s with ok := false }, ["bad-op"])
  | ["run"] =>
    if s.ok then ({ s with left := (runShared s.cfg s.left s.items.reverse s.budget s.draws).2 }, renderRun s) else (s, ["bad-op"])
  | "aitem" :: b :: rest =>
    match parseItem rest, b with
    | some it, "1" => ({ s with arows := { item := it, bypass := true } :: s.arows }, [])
    | some it, "0" => ({ s with arows := { item := it, bypass := false } :: s.arows }, [])
    | _, _ => ({ s with ok := false }, ["bad-op"])
  | ["agentrun", a, b, c, d] =>
    match a.toInt?, b.toInt?, c.toInt?, d.toInt? with
    | some a, some b, some c, some d => if s.ok then (s, renderAgent s a b c d) else (s, ["bad-op"])
    | _, _, _, _ => (s, ["bad-op"])
  | ["hostrun", k, expected] =>
    match k.toNat? with
    | some k => if s.ok && k ≤ 10 then (s, renderHost s k expected) else (s, ["bad-op"])
    | none => (s, ["bad-op"])
  | "tlsize" :: rest => (s, renderSize rest)
  | _ => ({ s with ok := false }, ["bad-op"])

end SH.Sampler
