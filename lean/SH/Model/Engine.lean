/-
  SH.Model.Engine — model of the binlog-backed SQLite engine (property C17).

  Code modelled (internal/sqlite):
    engine.go         doWithoutWait (savepoint, callback, binlogUpdateOffset with the *predicted* offset in the same
                      transaction, Append/AppendASAP, wait queue, must-commit-now path),
                      commitRWTXAndStartNewLocked + binlogWaitDBSync (COMMIT only once committedInfo.offset >= dbOffset),
                      binlogNotifyWaited, Close, crash + OpenEngine/binlogRun/binlogWaitReady
    binlog_engine.go  Apply (queue while a commit is awaited), apply, Skip/skip, Commit (delayed COMMIT + queue flush)
    payload_queue.go  applyQueue (addNewBody / addNewSkip / applyAllChanges)
    conn.go           savepoint release / rollback (a failed callback leaves the transaction as it was)

  One model step = one critical section of the real engine (RW connection mutex / the binlog's event reactor).
  SQLite itself is two values: `com` (the last COMMITted state: what RO connections and a crash image see) and `tx`
  (the state inside the open write transaction).  A database state is the list of applied event ids + the value of
  `__binlog_offset`.  The binlog is a list of records with their end offsets; `done` are the records the engine has
  consumed (applied, skipped or written itself), `aq` the records parked in the apply queue, `rest` the records the
  binlog reader has not delivered yet (non-empty only while re-reading after a restart).

  Ghost fields (not in the Go code): `dur` (highest offset announced by Commit = the fsynced prefix; survives a
  crash), `len`, `acked`, `ackedW`, the `eo` of records.
-/
namespace SH.Engine

structure Rec where
  isEv : Bool
  id : Nat
  ln : Nat      -- length in the binlog (padded)
  eo : Nat      -- end offset in the binlog
deriving DecidableEq, Repr

structure DB where
  rows : List Nat
  off : Nat
deriving DecidableEq, Repr

inductive QItem
  | body (recs : List Rec)     -- delayedApply{body}: one queued Apply payload
  | skip (r : Rec)             -- delayedApply{skip}
deriving DecidableEq, Repr

/-- an entry of Engine.waitQ: a write waits for the binlog commit of its own (predicted) end offset `off`; a read
    (`rd`, a Do that returned no event) carries in `off` the offset row of the write transaction it has read from -/
structure Waiter where
  tag : Nat
  off : Nat
  rd : Bool
deriving DecidableEq, Repr

inductive Kind | ok | cbfail | cbfail0 | sqlfail | appfail | read | ctxfail
deriving DecidableEq, Repr

structure St where
  wait : Bool            -- DurabilityMode == WaitCommit
  repl : Bool            -- Options.Replica
  com : DB
  tx : DB
  dbo : Nat              -- Engine.dbOffset
  done : List Rec
  rest : List Rec
  len : Nat              -- binlog length (buffEx.rd.offsetGlobal)
  dur : Nat
  ci : Nat               -- committedInfo.offset
  waitQ : List Waiter
  ptx : Bool             -- a timer commit is parked in binlogWaitDBSync (holds the RW connection)
  acked : List Nat
  ackedW : List Nat
  hold : Bool            -- "more than CommitEvery since the last delayed commit" (clock input)
  lc : Bool              -- impl.lastCommitTime has been set
  q : Bool               -- impl.state == waitToCommit
  aq : List QItem
  aqOff : Nat            -- applyQueue.dbOffset
  closed : Bool
  down : Bool            -- OpenEngine failed after the last crash (the process could not come up)
  ann : List Nat         -- ghost: every offset the binlog has announced through Engine.Commit so far (survives a crash)
deriving DecidableEq, Repr

def init (wait repl : Bool) (rest : List Rec) (len : Nat) : St :=
  { wait := wait, repl := repl, com := ⟨[], 0⟩, tx := ⟨[], 0⟩, dbo := 0, done := [], rest := rest, len := len, dur := 0,
    ci := 0, waitQ := [], ptx := false, acked := [], ackedW := [], hold := false, lc := false, q := false, aq := [],
    aqOff := 0, closed := false, down := false, ann := [] }

def pad4 (n : Nat) : Nat := (n + 3) / 4 * 4
/-- fsbinlog.AddPadding(len(payload)); the harness' events are at least 12 bytes -/
def plen (l : Nat) : Nat := pad4 (max l 12)

def evIds (l : List Rec) : List Nat := (l.filter (·.isEv)).map (·.id)
def upTo (off : Nat) (l : List Rec) : List Rec := l.filter (fun r => decide (r.eo ≤ off))
def above (off : Nat) (l : List Rec) : List Rec := l.filter (fun r => decide (off < r.eo))
/-- ids of the events of a binlog that end at or before `off`: what "applying the prefix up to off" yields -/
def evsUpTo (l : List Rec) (off : Nat) : List Nat := evIds (upTo off l)
def total (l : List Rec) : Nat := (l.map (·.ln)).sum

def itemRecs : QItem → List Rec
  | .body rs => rs
  | .skip r => [r]
def flat (aq : List QItem) : List Rec := aq.flatMap itemRecs
/-- the whole binlog as this process knows it -/
def allRecs (s : St) : List Rec := s.done ++ flat s.aq ++ s.rest
/-- position of the binlog reader -/
def rp (s : St) : Nat := s.dbo + total (flat s.aq)

/-! ### binlog_engine.go -/

/-- `impl.apply(payload)` outside the queue: events applied in the write transaction, offset row updated -/
def applyDirect (s : St) (recs : List Rec) : St :=
  { s with tx := ⟨s.tx.rows ++ evIds recs, s.dbo + total recs⟩, dbo := s.dbo + total recs, done := s.done ++ recs }

/-- `impl.skip(n)` -/
def skipDirect (s : St) (r : Rec) : St :=
  { s with tx := ⟨s.tx.rows, s.dbo + r.ln⟩, dbo := s.dbo + r.ln, done := s.done ++ [r] }

def flushItem (s : St) : QItem → St
  | .body rs => applyDirect s rs
  | .skip r => skipDirect s r

/-- `applyQueue.applyAllChanges(impl.apply, impl.skip)`; state = none -/
def flushQ (s : St) : St :=
  { (s.aq.foldl flushItem s) with q := false, aq := [] }

/-- the test of `Apply`: `(time.Since(lastCommitTime) > CommitEvery || state == waitToCommit) && dbOffset > committed` -/
def queueCond (s : St) : Bool := (s.hold || !s.lc || s.q) && decide (s.ci < s.dbo)

/-- bookkeeping of the binlog reader (fsbinlog checks the offsets the engine returns against its own position): the
    delivered records lie after the reader position and end within the delivered bytes, later records lie beyond -/
def recsOK (p : Nat) (recs : List Rec) : Bool := recs.all (fun r => decide (p < r.eo) && decide (r.eo ≤ p + total recs))
def restOK (p : Nat) (rest : List Rec) : Bool := rest.all (fun r => decide (p < r.eo))

def enqueue (s : St) (it : QItem) (n : Nat) : St :=
  { s with q := true, aq := s.aq ++ [it], aqOff := (if s.q then s.aqOff else s.dbo) + n }

def badApply (s : St) (n : Nat) : Bool :=
  n == 0 || decide ((s.rest.take n).length < n) || !(s.rest.take n).all (·.isEv) || s.closed || s.ptx

def readerOK (s : St) (n : Nat) : Bool :=
  recsOK (rp s) (s.rest.take n) && restOK (rp s + total (s.rest.take n)) (s.rest.drop n)
    && decide (rp s + total (s.rest.take n) ≤ s.len)

/-- the reader hands the next `n` event records to `Engine.Apply` -/
def deliverApply (s : St) (n : Nat) : St × String :=
  if badApply s n then (s, "bad-op")
  else if !readerOK s n then (s, "mismatch")
  else if queueCond s then
    let s' := enqueue { s with rest := s.rest.drop n } (.body (s.rest.take n)) (total (s.rest.take n))
    (s', s!"ret={s'.aqOff} e=nil")
  else
    let s' := applyDirect { s with rest := s.rest.drop n } (s.rest.take n)
    (s', s!"ret={s'.dbo} e=nil")

/-- what the user's apply function consumes from a payload of `m` bytes: the leading event records that lie completely
    inside it (it stops at a service record - unknown magic - and at a partial record - not enough data) -/
def fitCount : Nat → List Rec → Nat
  | _, [] => 0
  | m, r :: t => if r.isEv && decide (r.ln ≤ m) then fitCount (m - r.ln) t + 1 else 0

def badBuf (s : St) (m : Nat) : Bool := m == 0 || decide (total s.rest < m) || s.closed || s.ptx

/-- error the engine returns with the new offset: nil if the payload was consumed completely, "short"
    (ErrorNotEnoughData) if it ends with a partial event, "magic" (ErrorUnknownMagic) if a service record follows -/
def bufErr (left : Nat) (next : List Rec) : String :=
  if left = 0 then "nil"
  else match next with
    | [] => "short"
    | r :: _ => if r.isEv || decide (left < 4) then "short" else "magic"

/-- the reader hands `Engine.Apply` the next `m` bytes of the stream, wherever that cuts it (arbitrary chunking): the
    engine applies (or parks) the complete leading events and reports how far it got; the reader carries the rest over.
    A payload that starts with a partial event or a service record is consumed up to offset +0: outside the queue the
    offset row is still rewritten (with the unchanged offset), inside it an empty body is parked. -/
def deliverBuf (s : St) (m : Nat) : St × String :=
  if badBuf s m then (s, "bad-op")
  else if !readerOK s (fitCount m s.rest) then (s, "mismatch")
  else if queueCond s then
    let s' := enqueue { s with rest := s.rest.drop (fitCount m s.rest) } (.body (s.rest.take (fitCount m s.rest)))
                (total (s.rest.take (fitCount m s.rest)))
    (s', s!"ret={s'.aqOff} e={bufErr (m - total (s.rest.take (fitCount m s.rest))) (s.rest.drop (fitCount m s.rest))}")
  else
    let s' := applyDirect { s with rest := s.rest.drop (fitCount m s.rest) } (s.rest.take (fitCount m s.rest))
    (s', s!"ret={s'.dbo} e={bufErr (m - total (s.rest.take (fitCount m s.rest))) (s.rest.drop (fitCount m s.rest))}")

def badSkip (s : St) (n : Nat) : Bool :=
  match s.rest with
  | [] => true
  | r :: _ => r.isEv || r.ln != n || n == 0 || s.closed || s.ptx

/-- the reader met a service record of `n` bytes: `Engine.Skip(n)` -/
def deliverSkip (s : St) (n : Nat) : St × String :=
  if badSkip s n then (s, "bad-op")
  else if !readerOK s 1 then (s, "mismatch")
  else if s.q then
    let s' := enqueue { s with rest := s.rest.drop 1 } (.skip (s.rest.headD ⟨false, 0, 0, 0⟩)) n
    (s', s!"ret={s'.aqOff} e=nil")
  else
    let s' := skipDirect { s with rest := s.rest.drop 1 } (s.rest.headD ⟨false, 0, 0, 0⟩)
    (s', s!"ret={s'.dbo} e=nil")

/-! ### engine.go: binlogNotifyWaited, Commit -/

def relOK (k : Nat) (w : Waiter) : Bool := w.rd || decide (w.off ≤ k)
def released (k : Nat) (l : List Waiter) : List Waiter := l.takeWhile (relOK k)
def remaining (k : Nat) (l : List Waiter) : List Waiter := l.dropWhile (relOK k)

/-- NOT the code (seeded change C17-r5-1): every entry that is not an uncommitted write is released, wherever it sits -/
def releasedCompacting (k : Nat) (l : List Waiter) : List Waiter := l.filter (relOK k)

def notify (s : St) (k : Nat) : St :=
  { s with ci := k, waitQ := remaining k s.waitQ,
           acked := s.acked ++ (released k s.waitQ).map (·.tag),
           ackedW := s.ackedW ++ ((released k s.waitQ).filter (fun w => !w.rd)).map (·.tag) }

def delayedCommit (s : St) (k : Nat) : Bool := s.q && decide (s.dbo ≤ k)
def parkedCommit (s : St) (k : Nat) : Bool := s.ptx && decide (s.dbo ≤ k)

/-- ghost bookkeeping of a Commit(k): the fsynced prefix and the list of announced offsets -/
def announce (s : St) (k : Nat) : St := { s with dur := max s.dur k, ann := s.ann ++ [k] }

/-- `Engine.Commit(k)` delivered by the binlog (after its fsync) -/
def commitStep (s : St) (k : Nat) : St :=
  if k < s.ci then announce s k
  else if delayedCommit s k then flushQ { notify (announce s k) k with com := s.tx, lc := true }
  else if parkedCommit s k then { notify (announce s k) k with com := s.tx, ptx := false }
  else notify (announce s k) k

/-! ### engine.go: doWithoutWait -/

def svcRec (extra : Nat) (eo : Nat) : List Rec := if extra = 0 then [] else [⟨false, 0, extra, eo⟩]

/-- successful callback + offset row + Append: the write is in the transaction and in the binlog buffer -/
def writeOK (s : St) (id ln extra : Nat) : St :=
  { s with tx := ⟨s.tx.rows ++ [id], s.dbo + plen ln⟩,
           dbo := s.dbo + plen ln + extra, len := s.dbo + plen ln + extra,
           done := s.done ++ [⟨true, id, plen ln, s.dbo + plen ln⟩] ++ svcRec extra (s.dbo + plen ln + extra) }

/-- a write can reach the binlog only on a master whose binlog writer is running: fsbinlog starts the writer after the
    reader has delivered everything ("writer is not initialized (still reading?)"), OpenEngine returns after the apply queue
    was flushed, and Append checks that the engine's offset is the binlog's length -/
def canWrite (s : St) : Bool := !s.repl && decide (s.dbo = s.len) && !s.q && s.rest.isEmpty
def busy (s : St) : Bool := s.ptx || s.closed

def ackNow (s : St) (id : Nat) (w : Bool) : St :=
  { s with acked := s.acked ++ [id], ackedW := if w then s.ackedW ++ [id] else s.ackedW }
def park (s : St) (id off : Nat) (rd : Bool) : St := { s with waitQ := s.waitQ ++ [⟨id, off, rd⟩] }

def asapStr (b : Bool) : String := if b then "1" else "0"

def doWrite (s : St) (id ln extra : Nat) : St × String :=
  if !canWrite s then (s, s!"err dbo={s.dbo} asap={asapStr (s.wait && !s.repl)}")
  else
    let s1 := writeOK s id ln extra
    if s.wait then
      if s.dbo + plen ln ≤ s.ci then (ackNow s1 id true, s!"ok dbo={s1.dbo} asap=1")
      else (park s1 id (s.dbo + plen ln) false, s!"wait dbo={s1.dbo} asap=1")
    else (ackNow s1 id false, s!"ok dbo={s1.dbo} asap=0")

/-- NOT the code (seeded change C17-r5-2): the offset row is updated AFTER binlog.Append. If that UPDATE fails (the
    caller's context died after the callback's own statements), Do returns an error, the savepoint is rolled back and
    dbOffset is reset - but the binlog keeps the record. -/
def doWriteAppendFirstCtxFail (s : St) (id ln extra : Nat) : St :=
  { s with len := s.dbo + plen ln + extra,
           done := s.done ++ [⟨true, id, plen ln, s.dbo + plen ln⟩] ++ svcRec extra (s.dbo + plen ln + extra) }

/-- NOT the code (seeded change C17-r6-1, `savepointOnlyFor plainWrites`): the automatic savepoint is opened only before a
    statement whose text starts with INSERT/UPDATE/DELETE/REPLACE. In the code it is opened before the FIRST modifying
    statement of a callback whatever its shape (CTE-prefixed write, upsert, DDL through ExecUnsafe …), which is why the
    statement shape does not enter the model. Under the seeded rule a failing callback whose first write is not "plain"
    keeps that write: ROLLBACK TO undoes nothing. -/
def failedCallbackSavepointOnlyForPlainWrites (s : St) (id : Nat) (firstIsPlain : Bool) : St :=
  if firstIsPlain then s else { s with tx := ⟨s.tx.rows ++ [id], s.tx.off⟩ }

def doRead (s : St) (id : Nat) : St × String :=
  -- a read that finds parked calls is parked behind them; what it has seen is the write transaction up to its offset row
  if s.wait && !s.waitQ.isEmpty then (park s id s.tx.off true, s!"wait dbo={s.dbo} asap=0")
  else (ackNow s id false, s!"ok dbo={s.dbo} asap=0")

def doOp (s : St) (id ln extra : Nat) (k : Kind) : St × String :=
  if busy s then (s, "bad-op")
  else match k with
    | .ok => doWrite s id ln extra
    | .read => doRead s id
    | .appfail => (s, s!"err dbo={s.dbo} asap={asapStr (s.wait && !s.repl)}")
    -- .ctxfail: the callback succeeded but the caller's context is dead when the engine runs its own
    -- `UPDATE __binlog_offset`, which comes strictly BEFORE binlog.Append: error, savepoint rolled back, nothing appended
    | _ => (s, s!"err dbo={s.dbo} asap=0")

/-- NoWaitCommit master, mustCommitNow: AppendASAP, park on the wait queue holding the RW connection, the binlog
    announces the offset (the harness delivers Commit(len) once the call is parked), then COMMIT. -/
def doNow (s : St) (id ln extra : Nat) : St × String :=
  if busy s || s.wait || s.repl || s.q then (s, "bad-op")
  else if !canWrite s then (s, s!"err dbo={s.dbo} parked=0")
  else if s.dbo + plen ln ≤ s.ci then
    let s1 := ackNow (writeOK s id ln extra) id false
    (s1, s!"ok dbo={s1.dbo} parked=0")
  else
    let s2 := commitStep (park (writeOK s id ln extra) id (s.dbo + plen ln) false) (s.dbo + plen ln + extra)
    -- the parked call is released iff the announced offset covers its predicted offset (= tx.off); then COMMIT
    if s2.tx.off ≤ s2.ci then ({ s2 with com := s2.tx }, s!"ok dbo={s2.dbo} parked=1")
    else (s2, "stuck")

/-! ### engine.go: txLoop / commitRWTXAndStartNewLocked / Close / restart -/

/-- one tick of the CommitEvery timer. OpenEngine starts `txLoop` only in WaitCommit mode (`DurabilityMode == WaitCommit`)
    and txLoop commits only as a master, with `waitBinlogCommit = true`: the COMMIT happens once the binlog has announced
    the engine offset (`binlogWaitDBSync`), until then the call is parked holding the RW connection. In NoWaitCommit mode
    there is no timer at all: the write transaction is committed only by a must-commit-now write (`doNow`, which also
    waits for the binlog) or by Close. -/
def txStep (s : St) : St × String :=
  if busy s || s.q then (s, "bad-op")
  else if s.repl || !s.wait then (s, "noop")
  else if s.dbo ≤ s.ci then ({ s with com := s.tx }, "committed")
  else ({ s with ptx := true }, "pending")

/-- NOT the code (seeded change C17-r3-2): the timer also runs in NoWaitCommit mode, where txLoop passes
    `waitBinlogCommit = (DurabilityMode == WaitCommit) = false`: it COMMITs without waiting for the binlog. -/
def txStepNoWaitTimer (s : St) : St × String :=
  if busy s || s.q then (s, "bad-op")
  else if s.repl then (s, "noop")
  else if !s.wait then ({ s with com := s.tx }, "committed")
  else txStep s

def closeStep (s : St) : St × String :=
  if busy s then (s, "bad-op")
  else
    let s1 := if s.repl then s else commitStep s s.len
    if s1.dbo ≤ s1.ci then ({ s1 with com := s1.tx, closed := true }, "ok")
    else ({ s1 with closed := true }, "err")

/-- what the binlog files hold after a kill that keeps the bytes up to `d`: the records ending at or before `d` that
    the database has not consumed yet (those after its committed offset) -/
def keptRest (s : St) (d : Nat) : List Rec := upTo d (above s.com.off s.done ++ flat s.aq ++ s.rest)

/-- a kill may come at any moment (also while a commit is parked); everything up to the last Commit is on disk
    (`dur ≤ d`), nothing beyond what was written is (`d ≤ len`), and `d` is a record boundary: the file ends with the last
    complete record (a partial record after it is the separate flag `torn`) -/
def crashOK (s : St) (d : Nat) : Bool :=
  decide (s.dur ≤ d) && decide (d ≤ s.len) && decide (s.com.off + total (keptRest s d) = d)

/-- process dies, binlog file keeps the records that end at or before `d` (dur ≤ d), SQLite keeps `com`; the new
    process reads the offset from the database and lets the binlog replay from there -/
def crashStep (s : St) (d : Nat) : St :=
  { wait := s.wait, repl := s.repl, com := s.com, tx := s.com, dbo := s.com.off,
    done := upTo s.com.off s.done,
    rest := keptRest s d,
    len := d, dur := s.dur, ci := 0, waitQ := [], ptx := false, acked := s.acked, ackedW := s.ackedW,
    hold := false, lc := false, q := false, aq := [], aqOff := 0, closed := false, down := false, ann := s.ann }

/-- The same kill, but it hit the binlog writer inside write(2): the last file ends with a proper prefix of one more
    record. On restart the reader stops at the last complete record, then fsbinlog's writer.initChunk refuses the file
    ("current position in file is not equal file size"), binlog.Run fails and OpenEngine returns an error: a master
    does not come up (known finding restart-failed-torn-tail). A replica opens no writer and starts normally. -/
def tornStep (s : St) (d : Nat) : St := { crashStep s d with closed := true, down := true }

/-- binlogWaitReady after ChangeRole(ready): a master applies what is still queued (no COMMIT) -/
def readyStep (s : St) : St := if !s.repl && s.q then flushQ s else s

/-! ### ops -/

inductive Op
  | doOp (id ln extra : Nat) (k : Kind)
  | doNow (id ln extra : Nat)
  | commit (k : Nat)
  | tx
  | dApply (n : Nat)            -- reader delivers the next n event records
  | dSkip (n : Nat)             -- reader delivers a service record of n bytes
  | dApplyBuf (m : Nat)         -- reader delivers the next m bytes, cut anywhere (partial records are carried over)
  | view                        -- a reader (Engine.View, RO connection) looks at the database
  | append (recs : List (Bool × Nat × Nat))   -- live replica: the master wrote records (isEv, id, ln); they reach the reader
  | hold (b : Bool)
  | close
  | crash (d : Nat) (torn : Bool)   -- torn: the last binlog file ends with a proper prefix of one more record
  | ready
deriving DecidableEq, Repr

def mkRecs (p : Nat) : List (Bool × Nat × Nat) → List Rec
  | [] => []
  | (e, id, ln) :: r => ⟨e, id, ln, p + ln⟩ :: mkRecs (p + ln) r

def appendStep (s : St) (l : List (Bool × Nat × Nat)) : St :=
  { s with rest := s.rest ++ mkRecs s.len l, len := s.len + total (mkRecs s.len l) }

def fmtDB (d : DB) : String :=
  (if d.rows.isEmpty then "-" else ",".intercalate (d.rows.map toString)) ++ "@" ++ toString d.off

def step (s : St) : Op → St × String
  | .doOp id ln extra k => doOp s id ln extra k
  | .doNow id ln extra => doNow s id ln extra
  | .commit k => if s.closed || decide (s.len < k) then (s, "bad-op") else (commitStep s k, "e=nil")
  | .tx => txStep s
  | .dApply n => deliverApply s n
  | .dSkip n => deliverSkip s n
  | .dApplyBuf m => deliverBuf s m
  | .view => (s, fmtDB s.com)
  | .append l => if busy s || !s.repl || !l.all (fun x => decide (0 < x.2.2)) then (s, "bad-op") else (appendStep s l, "ok")
  | .hold b => ({ s with hold := b }, "ok")
  | .close => closeStep s
  | .crash d torn =>
    if !crashOK s d then (s, "bad-op")
    else if torn && !s.repl then (tornStep s d, "open-error")
    else (crashStep s d, s!"image={fmtDB s.com} start={s.com.off}")
  | .ready => (readyStep s, "ok")

/-- Documented alternative (NOT the code): fixes/C17-binlog-torn-tail.diff lets the writer cut the torn tail off, then a
    torn tail makes no difference to the restart. The patch was not applied (silent truncation needs the maintainers). -/
def stepFixed (s : St) : Op → St × String
  | .crash d _ => if crashOK s d then (crashStep s d, s!"image={fmtDB s.com} start={s.com.off}") else (s, "bad-op")
  | op => step s op

def run (s : St) : List Op → St
  | [] => s
  | op :: ops => run (step s op).1 ops

end SH.Engine
