/-
  SH.Model.StringTop — executable model of string-top rows
  (/repo/internal/data_model/bucket.go: MultiItem.MapStringTop / MapStringTopBytes / resample / FinishStringTop,
   ItemValue.addOnlyValue / AddValueCounterHost / Merge, max_host_probability.go: ItemCounter.AddCounterHost / Merge).

  Core Lean only.  What is an INPUT of the model rather than computed by it (DESIGN §4.2, §4.3):
    * the random draws: `u` = rng.Float64()·2^53 of the redirect test, and per resample round a function
      `Key → Nat` giving the `rng.Intn(sf)` value each key would receive (a key receives at most one draw per round,
      so a function of the key is exactly as general as "enumeration order + draw stream");
    * the enumeration order of the Go map: the `top` list may be in any order, and the op `reorder` permutes it
      arbitrarily between operations (this is also how ties of the unstable `sort.Slice` in FinishStringTop are
      resolved: `finish` sorts stably, so the order of equal counts is the order of the enumeration);
    * fuel: `for len(s.Top) >= capacity { s.resample(rng) }` is not structurally terminating (a round may evict
      nothing); the list of per-round draw functions is the fuel and `none` means "still looping".
  Numbers are dyadic rationals held as scaled `Int`s (exact domain, DESIGN §4.1): counts and values in units of
  1/`unit` = 1/16, sums (value·count) in units of 1/`unit`² = 1/256.  Everything the code does with them is linear, so
  the scale is visible only where a count meets an unscaled integer: the sample factor and the draws (`evicts`,
  `redirects`) and the implicit count 1 / divisor len(values) of ApplyValues.  Host tags, sum of squares, t-digest and
  HLL are not modelled.
  `1 << sampleFactorLog2` is a mathematical power of two here (the Go `int` overflows at 2^63: not modelled).
-/
import SH.Model.Core
import SH.Gen.C07

namespace SH.StringTop

/-! ### keys (data_model.TagUnion) -/

structure Key where
  s : List UInt8
  i : Int
  deriving DecidableEq, Repr

/-- TagUnion.Empty -/
def Key.isEmpty (k : Key) : Bool := decide (k.i = 0) && k.s.isEmpty

/-- TagUnion.Normalize: the integer value has priority over the string -/
def Key.normalize (k : Key) : Key := if k.i ≠ 0 then { k with s := [] } else k

/-! ### aggregates (data_model.ItemValue without host tags and sum of squares) -/

/-- counts and values are integers in units of 1/unit -/
abbrev unit : Int := 16

structure Agg where
  cnt : Int := 0
  sum : Int := 0
  vmin : Int := 0
  vmax : Int := 0
  set : Bool := false
  deriving DecidableEq, Repr

def Agg.zero : Agg := {}

/-- the counter field under ItemCounter.AddCounterHost(count) and ItemCounter.Merge(other): both return early on a
    non-positive increment and *assign* when the receiver is non-positive -/
def addCnt (a c : Int) : Int := if c ≤ 0 then a else if a ≤ 0 then c else a + c

def lowers (a : Agg) (v : Int) : Bool := !a.set || decide (v < a.vmin)
def raises (a : Agg) (v : Int) : Bool := !a.set || decide (v > a.vmax)

/-- ItemValue.addOnlyValue -/
def Agg.addOnlyValue (a : Agg) (v c : Int) : Agg :=
  { cnt := a.cnt, sum := a.sum + v * c,
    vmin := if lowers a v then v else a.vmin,
    vmax := if raises a v then v else a.vmax,
    set := true }

/-- MultiValue.AddCounterHost -/
def Agg.addCounter (a : Agg) (c : Int) : Agg := { a with cnt := addCnt a.cnt c }

/-- MultiValue.AddValueCounterHost -/
def Agg.addValueCounter (a : Agg) (v c : Int) : Agg := (a.addCounter c).addOnlyValue v c

/-- ItemValue.Merge -/
def Agg.merge (a b : Agg) : Agg :=
  if b.set then
    { cnt := addCnt a.cnt b.cnt, sum := a.sum + b.sum,
      vmin := if lowers a b.vmin then b.vmin else a.vmin,
      vmax := if raises a b.vmax then b.vmax else a.vmax,
      set := true }
  else { a with cnt := addCnt a.cnt b.cnt }

/-- `tmp.ValueSum *= count; if totalCount != 1 { tmp.ValueSum /= totalCount }` (exact when totalCount divides);
    `c` and `total` are scaled by `unit`, the product of the scaled sum with the real count is `s * c / unit` -/
def scaleSum (s c total : Int) : Int := if total ≠ unit then (s * c) / total else (s * c) / unit

def scaled (t : Agg) (c total : Int) : Agg := if c ≠ total then { t with sum := scaleSum t.sum c total } else t

/-- the temporary of MultiValue.ApplyValues: SimpleItemCounter(count) then addOnlyValue(v, 1) per value (count 1 = `unit`) -/
def valuesTmp (vs : List Int) (c : Int) : Agg := vs.foldl (fun t v => t.addOnlyValue v unit) { cnt := c }

/-- MultiValue.ApplyValues(histogram = nil, values, count, totalCount = len(values), hasPercentiles = false) -/
def Agg.applyValues (a : Agg) (vs : List Int) (c : Int) : Agg :=
  if vs.isEmpty then a else a.merge (scaled (valuesTmp vs c) c (unit * vs.length))

/-- what a caller does with the *MultiValue returned by MapStringTop -/
inductive Event where
  | counter (c : Int)                 -- mv.AddCounterHost(rng, c, host)
  | value (v c : Int)                 -- mv.AddValueCounterHost(rng, v, c, host)
  | values (vs : List Int) (c : Int)  -- mv.ApplyValues(rng, nil, vs, c, len(vs), host, _, false)
  | merge (a : Agg)                   -- mv.Value.Merge(rng, &a)   (Shard.MergeItemValue)
  deriving DecidableEq, Repr

def Event.apply : Event → Agg → Agg
  | .counter c, a => a.addCounter c
  | .value v c, a => a.addValueCounter v c
  | .values vs c, a => a.applyValues vs c
  | .merge b, a => a.merge b

/-! ### rows (data_model.MultiItem: Top, Tail, sampleFactorLog2) -/

abbrev Entry := Key × Agg

structure Row where
  top : List Entry := []
  tail : Agg := {}
  sfLog2 : Nat := 0
  deriving DecidableEq, Repr

def Row.empty : Row := {}

def hasKey (k : Key) (l : List Entry) : Bool := l.any (fun kv => decide (kv.1 = k))

def getKey (k : Key) : List Entry → Option Agg
  | [] => none
  | kv :: rest => if kv.1 = k then some kv.2 else getKey k rest

/-- update the entry of key `k` (keys are unique, see `C07.run_nodup`) -/
def updFirst (k : Key) (f : Agg → Agg) : List Entry → List Entry
  | [] => []
  | kv :: rest => if kv.1 = k then (kv.1, f kv.2) :: rest else kv :: updFirst k f rest

/-- `if capacity < 1 { capacity = DefaultStringTopCapacity }` -/
def effCap (cap : Int) : Nat := if cap < 1 then SH.Gen.C07.defaultStringTopCapacity else cap.toNat

/-- `s.sampleFactorLog2 != 0 && rng.Float64()*float64(sf) >= count` with rng.Float64() = u / 2^53 -/
def redirects (sfLog2 : Nat) (u : Nat) (count : Int) : Bool :=
  sfLog2 != 0 && decide (count * (2 : Int) ^ 53 ≤ unit * ((u : Int) * (2 : Int) ^ sfLog2))

/-- resample: `if cnt >= sf {continue}; rv := rng.Intn(sf); if cnt > rv {continue}; fold into tail, delete`
    (`sf` and `rv` are plain integers, the count is scaled) -/
def evicts (sf rv : Int) (a : Agg) : Bool := decide (a.cnt < unit * sf) && decide (a.cnt ≤ unit * rv)

/-- sf of the next resample round (sampleFactorLog2 is incremented first) -/
def roundSf (r : Row) : Nat := 2 ^ (r.sfLog2 + 1)

def evictsKV (sf : Nat) (d : Key → Nat) (kv : Entry) : Bool := evicts sf ((d kv.1 % sf : Nat) : Int) kv.2

/-- `s.Tail.Merge(rng, v)` for each entry of the list, in list order -/
def foldInto (t : Agg) (l : List Entry) : Agg := l.foldl (fun t kv => t.merge kv.2) t

/-- MultiItem.resample; `d k` is the draw key `k` would receive in this round -/
def resample (d : Key → Nat) (r : Row) : Row :=
  { top := r.top.filter (fun kv => !evictsKV (roundSf r) d kv),
    tail := foldInto r.tail (r.top.filter (evictsKV (roundSf r) d)),
    sfLog2 := r.sfLog2 + 1 }

def roomFor (cap : Nat) (r : Row) : Bool := decide (r.top.length < cap)

/-- `for len(s.Top) >= capacity { s.resample(rng) }`; `none` = out of fuel, the Go loop would still be running -/
def resampleLoop (cap : Nat) : List (Key → Nat) → Row → Option Row
  | ds, r =>
    if roomFor cap r then some r else
    match ds with
    | [] => none
    | d :: ds => resampleLoop cap ds (resample d r)

/-- where the event of a write lands -/
inductive Slot where
  | tail
  | top (k : Key)
  deriving DecidableEq, Repr

def insertNew (k : Key) (r : Row) : Row := { r with top := r.top ++ [(k, Agg.zero)] }

/-- MultiItem.MapStringTop and MapStringTopBytes (identical up to the string representation) -/
def mapTop (cap : Int) (key : Key) (count : Int) (u : Nat) (ds : List (Key → Nat)) (r : Row) : Option (Row × Slot) :=
  if key.isEmpty then some (r, .tail) else
  if hasKey key.normalize r.top then some (r, .top key.normalize) else
  if redirects r.sfLog2 u count then some (r, .tail) else
  match resampleLoop (effCap cap) ds r with
  | none => none
  | some r' => some (insertNew key.normalize r', .top key.normalize)

def applyAt (f : Agg → Agg) (r : Row) : Slot → Row
  | .tail => { r with tail := f r.tail }
  | .top k => { r with top := updFirst k f r.top }

/-- one event written into the row: Shard.ApplyCounter / AddValueCounterHost / ApplyValues / MergeItemValue -/
structure Write where
  cap : Int
  key : Key
  count : Int
  u : Nat
  draws : List (Key → Nat)
  ev : Event

def write (w : Write) (r : Row) : Option Row :=
  match mapTop w.cap w.key w.count w.u w.draws r with
  | none => none
  | some (r', slot) => some (applyAt w.ev.apply r' slot)

/-! ### FinishStringTop -/

/-- insert before the first element that is not heavier: stable w.r.t. an element that came earlier -/
def insDesc (x : Entry) : List Entry → List Entry
  | [] => [x]
  | y :: ys => if y.2.cnt ≤ x.2.cnt then x :: y :: ys else y :: insDesc x ys

/-- `sort.Slice(result, count desc)`; ties keep the order of the enumeration -/
def sortDesc : List Entry → List Entry
  | [] => []
  | x :: xs => insDesc x (sortDesc xs)

/-- `if capacity < 0 { capacity = 0 }` -/
def finCap (cap : Int) : Nat := cap.toNat

def retained (cap : Int) (r : Row) : List Entry := (sortDesc r.top).take (finCap cap)
def folded (cap : Int) (r : Row) : List Entry := (sortDesc r.top).drop (finCap cap)

/-- MultiItem.FinishStringTop -/
def finish (cap : Int) (r : Row) : Row :=
  if r.top.isEmpty then r else
  { r with top := retained cap r, tail := foldInto r.tail (folded cap r) }

def sumCnt (l : List Entry) : Int := l.foldr (fun kv t => kv.2.cnt + t) 0

/-- the returned whale weight -/
def whale (r : Row) : Int := r.tail.cnt + sumCnt r.top

/-- another enumeration of the same map -/
def reorder (l : List Entry) (r : Row) : Row := if l.isPerm r.top then { r with top := l } else r

/-! ### histories -/

inductive Op where
  | write (w : Write)
  | reorder (l : List Entry)
  | finish (cap : Int)

def step (r : Row) : Op → Option Row
  | .write w => write w r
  | .reorder l => some (reorder l r)
  | .finish cap => some (finish cap r)

def run : Row → List Op → Option Row
  | r, [] => some r
  | r, op :: ops =>
    match step r op with
    | none => none
    | some r' => run r' ops

end SH.StringTop
