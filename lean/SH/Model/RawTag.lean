/-
  SH.Model.RawTag — executable model of raw tag value parsing (property C11), internal/format/format.go:
    ContainsRawTagValueBytes   = strconv.ParseInt(s, 10, 64) + range check [MinInt32, MaxUint32], result int32(i)
    ContainsRawTagValue64Bytes = "-…": strconv.ParseInt(s, 10, 64);  otherwise strconv.ParseUint(s, 10, 64)
  strconv.ParseInt / ParseUint for base 10 are modelled exactly: optional sign (ParseInt only), one or more ASCII
  digits, no underscores (base ≠ 0), range error when the value does not fit.  Results are bit patterns (`Nat` below
  2^32 / 2^64).  Core Lean only.
-/
namespace SH.RawTag

def isDigit (c : UInt8) : Bool := decide (0x30 ≤ c.toNat) && decide (c.toNat ≤ 0x39)

/-- value of a digit string read left to right, `none` as soon as a non-digit is met -/
def digitsVal : List UInt8 → Nat → Option Nat
  | [], acc => some acc
  | c :: rest, acc => if isDigit c then digitsVal rest (acc * 10 + (c.toNat - 0x30)) else none

/-- strconv.ParseUint(s, 10, 64): none = syntax or range error -/
def parseUint64 (s : List UInt8) : Option Nat :=
  if s.isEmpty then none
  else match digitsVal s 0 with
    | none => none
    | some n => if n < 2 ^ 64 then some n else none

def plus : UInt8 := 0x2B
def minus : UInt8 := 0x2D

/-- magnitude part of strconv.ParseInt: digits after the optional sign, as an unbounded number (the 2^64 overflow of
    the inner ParseUint is subsumed by the 2^63 checks below) -/
def magnitude (s : List UInt8) : Option Nat := if s.isEmpty then none else digitsVal s 0

/-- strconv.ParseInt(s, 10, 64): none = syntax or range error -/
def parseInt64 (s : List UInt8) : Option Int :=
  match s with
  | [] => none
  | c :: rest =>
    if c = plus then (match magnitude rest with
      | some n => if n < 2 ^ 63 then some (n : Int) else none
      | none => none)
    else if c = minus then (match magnitude rest with
      | some n => if n ≤ 2 ^ 63 then some (-(n : Int)) else none
      | none => none)
    else (match magnitude (c :: rest) with
      | some n => if n < 2 ^ 63 then some (n : Int) else none
      | none => none)

/-- two's complement bit pattern of `i` in `bits` bits -/
def pattern (bits : Nat) (i : Int) : Nat := (i % (2 ^ bits : Int)).toNat

/-- ContainsRawTagValueBytes: the stored 32-bit pattern, none = not a raw value -/
def raw32 (s : List UInt8) : Option Nat :=
  match parseInt64 s with
  | some i => if -(2 ^ 31 : Int) ≤ i ∧ i ≤ (2 ^ 32 - 1 : Int) then some (pattern 32 i) else none
  | none => none

/-- ContainsRawTagValue64Bytes: the stored 64-bit pattern (lo = pattern % 2^32, hi = pattern / 2^32) -/
def raw64 (s : List UInt8) : Option Nat :=
  match s with
  | [] => none
  | c :: _ =>
    if c = minus then (parseInt64 s).map (pattern 64)
    else parseUint64 s

/-- how a stored pattern is read back -/
def asSigned (bits p : Nat) : Int := if p < 2 ^ (bits - 1) then (p : Int) else (p : Int) - (2 ^ bits : Int)
def asUnsigned (p : Nat) : Int := (p : Int)

end SH.RawTag
