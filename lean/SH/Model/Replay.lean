/-
  SH.Model.Replay — executable model of the metadata binlog: what every primary operation APPENDS (emission, dbv2.go /
  binlog_event.go) and what a replica DOES with each event when it re-reads the binlog (binlog_event.go applyScanEvent and the
  apply* functions, driven by internal/sqlite/binlog_engine.go apply).  Core Lean only; the durable state is SH.Meta.State.

  Emission (one `eng.Do` callback returns the bytes of at most one event; an error returns nothing and rolls the savepoint back):
    SaveEntity               CreateEntityEvent{Metric = the returned event} | EditEntityEvent{Metric, OldVersion = request's}
    getOrCreateMapping       CreateMappingEvent{Id, Key, Metric, UpdatedAt = roundTime(now), Budget = the stored count_free, create}
                             only when a mapping row was inserted
    putMapping               PutMappingEvent{Keys, Value}            (also for empty lists)
    deleteMappingsByIdBatched DeleteMappingsEvent{Ids = the ids that were present}   (nothing when none was present)
    applyPutBootstrap        PutBootstrapEvent{Mappings}
    ResetFlood               NOTHING (it returns the cache untouched although it wrote flood_limits)
  Application, literally per SQL statement (SQLite trusted: PRIMARY KEY / UNIQUE violations make the statement — and with it
  the whole replay, OpenDB returns the error — fail; an UPDATE that matches no row is not an error):
    applyCreateEntityEvent   INSERT INTO metrics_v5 (id, version, data, name, updated_at, type, deleted_at, namespace_id); insertHistory
    applyEditEntityEvent     UPDATE metrics_v5 SET version, data, updated_at, deleted_at, namespace_id[, name]
                               WHERE version = $oldVersion AND id = $id [AND name = $name]; insertHistory (also when no row matched)
    applyCreateMappingEvent  INSERT OR REPLACE INTO flood_limits; INSERT INTO mappings (name, id)
    putMapping, applyDeleteMappingsEvent, applyPutBootstrap   the same statements the primary ran
  `RVariant.fixed` = applyEditEntityEvent with fixes/C16-replay-rename.diff (SET name = $name, no name in WHERE);
  `RVariant.old`   = the pinned tree (`AND name = $name` with the NEW name, name never written): a replayed rename matches no row.

  Differences between a primary and a replica that are NOT observable through the service and that the model keeps:
  metrics_v5.updated_at holds db.now().Unix() (int64) on the primary but uint32(that) after replay (every reader casts to uint32);
  DBV2.lastMappingIDToInsert is volatile (0 after any open).  `view` erases exactly these two.
-/
import SH.Model.Meta

namespace SH.Replay
open SH.Meta

/-! ### operations of the primary and the events they append -/

inductive Op where
  | base (o : Meta.Op)
  | bootstrap (ms : List (Nat × Int))
deriving DecidableEq, Repr

inductive BEvent where
  | createEntity (ev : Event)
  | editEntity (ev : Event) (oldVersion : Nat)
  | createMapping (id : Int) (key metric updatedAt : Nat) (budget : Int) (create : Bool)
  | putMapping (kvs : List (Nat × Int))
  | deleteMappings (ids : List Int)
  | putBootstrap (ms : List (Nat × Int))
deriving DecidableEq, Repr

/-- state transition of the primary -/
def pstep (c : Cfg) (s : State) : Op → State
  | .base o => Meta.step c s o
  | .bootstrap ms => { s with bootstrap := some ms }

def prun (c : Cfg) (s : State) (ops : List Op) : State := ops.foldl (pstep c) s

def emitSave (s : State) (a : SaveReq) : List BEvent :=
  match (save s a).2 with
  | .ok ev true => [.createEntity ev]
  | .ok ev false => [.editEntity ev a.oldVersion]
  | .err _ => []

/-- the flood_limits row getOrCreateMapping writes before inserting the mapping; `none` = flood limit error -/
def newFloodRow (c : Cfg) (s : State) (metric now : Nat) : Option Flood :=
  match lookupFlood s.flood metric with
  | some f =>
    if floodHit c s f (roundTime now c.step) then none
    else some { metric := metric, last := roundTime now c.step, free := budgetFor c s f (roundTime now c.step) }
  | none => some { metric := metric, last := roundTime now c.step, free := c.maxBudget - 1 }

def emitGetOrCreate (c : Cfg) (s : State) (metric key now : Nat) : List BEvent :=
  match lookupKey s.maps key with
  | some _ => []
  | none =>
    match newFloodRow c s metric now with
    | none => []
    | some f => [.createMapping ((s.mapSeq + 1 : Nat) : Int) key metric f.last f.free (lookupFlood s.flood metric).isNone]

/-- the ids `SELECT id FROM mappings WHERE id IN (…)` returns -/
def presentIds (s : State) (ids : List Int) : List Int := (s.maps.filter (fun p => ids.contains p.1)).map (·.1)

def emitDelete (s : State) (ids : List Int) : List BEvent :=
  if (presentIds s ids).isEmpty then [] else [.deleteMappings (presentIds s ids)]

/-- what the operation appends to the binlog, as a function of the state it runs in -/
def emit (c : Cfg) (s : State) : Op → List BEvent
  | .base (.save a) => emitSave s a
  | .base (.getOrCreate m k now) => emitGetOrCreate c s m k now
  | .base (.put kvs) => [.putMapping kvs]
  | .base (.delete ids) => emitDelete s ids
  | .base (.reset _ _ _) => []
  | .bootstrap ms => [.putBootstrap ms]

/-- the binlog written by running `ops` from `s` -/
def eventsOf (c : Cfg) : State → List Op → List BEvent
  | _, [] => []
  | s, o :: os => emit c s o ++ eventsOf c (pstep c s o) os

/-! ### replay -/

inductive RVariant where
  | old
  | fixed
deriving DecidableEq, Repr

def rowOfEvent (ev : Event) : Entity :=
  { id := ev.id, name := ev.name, nsId := ev.nsId, version := ev.version, updatedAt := ev.updatedAt, deletedAt := ev.deletedAt,
    data := ev.data, dataLen := ev.dataLen, typ := ev.typ }

/-- INSERT INTO metrics_v5 with an explicit id fails on PRIMARY KEY (id), UNIQUE (version), UNIQUE (namespace_id, type, name) -/
def insertBlocked (ents : List Entity) (r : Entity) : Bool :=
  ents.any (fun e => e.id == r.id || e.version == r.version || (e.nsId == r.nsId && e.typ == r.typ && e.name == r.name))

/-- INSERT INTO entity_history fails on UNIQUE (version) (UNIQUE (entity_id, version) is implied by it) -/
def histBlocked (hist : List Event) (ev : Event) : Bool := hist.any (fun h => h.version == ev.version)

/-- insertHistory (emitted events always carry the metadata field, so the `IsSetMetadata` guard is always passed) -/
def addHistory (s : State) (ev : Event) : Option State :=
  if histBlocked s.hist ev then none else some { s with hist := s.hist ++ [ev] }

/-- sqlite_sequence after an INSERT with an explicit rowid -/
def bumpSeq (seq : Nat) (id : Int) : Nat := if (seq : Int) < id then id.toNat else seq

def applyCreateEntity (s : State) (ev : Event) : Option State :=
  if insertBlocked s.ents (rowOfEvent ev) then none
  else addHistory { s with ents := insertById (rowOfEvent ev) s.ents, entSeq := bumpSeq s.entSeq ev.id } ev

def nameMatches (var : RVariant) (r : Entity) (ev : Event) : Bool :=
  match var with
  | .fixed => true
  | .old => r.name == ev.name

/-- the row `WHERE version = $oldVersion AND id = $id [AND name = $name]` selects (id is the primary key) -/
def editTarget (var : RVariant) (s : State) (ev : Event) (old : Nat) : Option Entity :=
  match rowOf s.ents ev.id with
  | none => none
  | some r => if r.version == old && nameMatches var r ev then some r else none

def replayedName (var : RVariant) (r : Entity) (ev : Event) : Name :=
  match var with
  | .fixed => ev.name
  | .old => r.name

def replayedRow (var : RVariant) (r : Entity) (ev : Event) : Entity :=
  { r with version := ev.version, data := ev.data, dataLen := ev.dataLen, updatedAt := ev.updatedAt, deletedAt := ev.deletedAt,
           nsId := ev.nsId, name := replayedName var r ev }

/-- the UPDATE fails when the new row collides with ANOTHER row on UNIQUE (version) or UNIQUE (namespace_id, type, name) -/
def updateBlocked (ents : List Entity) (r' : Entity) : Bool :=
  ents.any (fun e => e.id != r'.id && (e.version == r'.version || (e.nsId == r'.nsId && e.typ == r'.typ && e.name == r'.name)))

def applyEditEntity (var : RVariant) (s : State) (ev : Event) (old : Nat) : Option State :=
  match editTarget var s ev old with
  | none => addHistory s ev
  | some r =>
    if updateBlocked s.ents (replayedRow var r ev) then none
    else addHistory { s with ents := replaceRow (replayedRow var r ev) s.ents } ev

/-- INSERT INTO mappings (name, id) fails on PRIMARY KEY (id) and UNIQUE (name) -/
def mapBlocked (maps : List (Int × Nat)) (id : Int) (key : Nat) : Bool := maps.any (fun p => p.1 == id || p.2 == key)

def applyCreateMapping (s : State) (id : Int) (key metric updatedAt : Nat) (budget : Int) : Option State :=
  if mapBlocked s.maps id key then none
  else some { s with flood := setFlood s.flood { metric := metric, last := updatedAt, free := budget },
                     maps := (id, key) :: s.maps, mapSeq := bumpSeq s.mapSeq id }

def applyDelete (s : State) (ids : List Int) : State := { s with maps := s.maps.filter (fun p => !ids.contains p.1) }

/-- applyScanEvent(scanOnly = false) for one event; `none` = the replay stops with an error -/
def applyEvent (var : RVariant) (s : State) : BEvent → Option State
  | .createEntity ev => applyCreateEntity s ev
  | .editEntity ev old => applyEditEntity var s ev old
  | .createMapping id key metric updatedAt budget _ => applyCreateMapping s id key metric updatedAt budget
  | .putMapping kvs => some (putMany s kvs)
  | .deleteMappings ids => some (applyDelete s ids)
  | .putBootstrap ms => some { s with bootstrap := some ms }

def applyAll (var : RVariant) : State → List BEvent → Option State
  | s, [] => some s
  | s, e :: es =>
    match applyEvent var s e with
    | none => none
    | some s' => applyAll var s' es

/-- a database file copied from the primary and opened by another process: everything durable, nothing volatile -/
def snapshotOf (s : State) : State := { s with lastCreated := 0 }

/-! ### the observable projection -/

def normEnt (e : Entity) : Entity := { e with updatedAt := e.updatedAt % two32 }

/-- what the service shows of a state: every reader of `updated_at` casts it to uint32, the last created mapping id is
    process-local.  Journal, history, mappings, flood limits, bootstrap and both AUTOINCREMENT marks are kept as they are. -/
def view (s : State) : State := { s with ents := s.ents.map normEnt, lastCreated := 0 }

/-! ### rendering (driver) -/

def showPairs (kvs : List (Nat × Int)) : String := showList (kvs.map (fun p => s!"{p.1}:{p.2}"))

def insertInt (x : Int) : List Int → List Int
  | [] => [x]
  | y :: ys => if x < y then x :: y :: ys else y :: insertInt x ys

def sortInts (l : List Int) : List Int := l.foldr insertInt []

def showBEvent : BEvent → String
  | .createEntity ev => "create " ++ showEvent ev
  | .editEntity ev old => s!"edit {old} " ++ showEvent ev
  | .createMapping id key metric updatedAt budget create => s!"cm {id} {key} {metric} {updatedAt} {budget} c={if create then 1 else 0}"
  | .putMapping kvs => "put " ++ showPairs kvs
  | .deleteMappings ids => "del " ++ showList (sortInts ids)
  | .putBootstrap ms => "boot " ++ showPairs ms

def showBootstrap : Option (List (Nat × Int)) → String
  | none => "none"
  | some ms => showPairs ms

/-- the tables as cmd/verif-c16 dumps them -/
def dumpTables (s : State) : List String :=
  s.ents.map (fun e => "E " ++ showEntity e)
  ++ (s.hist.foldr insertEvAsc []).map (fun e => "H " ++ showEvent e)
  ++ (sortedMaps s).map (fun p => s!"M {p.1} {p.2}")
  ++ (s.flood.foldr insertFlood []).map (fun f => s!"F {f.metric} {f.last} {f.free}")
  ++ [s!"S {s.entSeq} {s.mapSeq}", "B " ++ showBootstrap s.bootstrap]

end SH.Replay
