/-
  SH.Model.Table — model of internal/api/table.go (property C25):
    getTableFromLODs, limitQueries, inRange, and of the two comparison functions they use,
    handler.go `lessThan` (row marker against a storage row) and `queryTableRows.Less` (final sort).

  What is data in the model
  * a storage row is its key (time, numeric tags, the string-top value `stag[47]`) plus the value fields;
    strings are order-preserving codes (`Nat`, 0 = ""), because only their order and emptiness are used;
  * the storage (`loadPoints`) is an input: per handler-what and per LOD either an error or the list of time
    groups it returned — any shape, any order, possibly different per handler-what;
  * `getHandlerWhat` (promql.go) is an input: `cols` lists, per handler-what, which value field each of its
    columns shows (the harness passes what the real function computed). `value()` itself is not modelled;
  * NaN is `none`.

  `Variant.fixed` is the code after the `fix:` patch /verif/fixes/C25-table-window-limit-columns.diff.
  `Variant.old` keeps the four decision sites of the code before it, so that Props/C25 can exhibit the old
  defects: (1) limitQueries tested the limit before the window, (2) skipped a whole time group when its first
  and last row were outside the window, (3) answered `len(rowsByTime) > 0` for a limit ≤ 0, and (4) the NaN
  padding appended one NaN per handler-what instead of one per column.
  The shared `rowRepr.Tags` backing array of the old code is modelled separately at the end of this file
  (`passBatches`, `aliasedTags`, `getTableAliased`). Not modelled: appendRowValues of the old code indexed `qry` with
  the column index (index out of range for more than 7 columns in one handler-what).
  `handleGetTable` / `Caller` model the order in which handler.go hands the LODs of GetLODs to getTableFromLODs:
  `Caller.keeps` after /verif/fixes/C25-descending-lod-order.diff, `Caller.reversesFromEnd` before it.
-/
namespace SH.Table

inductive Variant | fixed | old
deriving DecidableEq, Repr

/-- `tableRowKey{time, tsTags}`: the time and the WHOLE tag block of the storage row. `tags` lists the integer tag values
    `tag[j]` (j < NT) followed, in the harness protocol, by the codes of the unmapped string values `stag[j]` (j < NT,
    0 = none) of the same tags: a group-by tag is either mapped (integer value), unmapped (integer 0, string value) or
    unspecified. Comparisons (`lessThan`, `less`) read the integer part only (`tagAt` with j < NT), key equality reads
    everything. -/
structure Key where
  time : Int
  tags : List Int       -- tag[j] = tags[j], 0 beyond the end; then the string-value codes
  skey : Nat            -- code of stag[StringTopTagIndexV3]; 0 = ""
deriving DecidableEq, Repr

structure Row where
  key : Key
  vals : List Int       -- value fields (count, sum, min, max, cardinality, percentile)
deriving DecidableEq, Repr

structure Marker where
  time : Int
  tags : List (Nat × Int)   -- RawTag{Index, Value}
  skey : Nat
deriving DecidableEq, Repr

def tagAt (k : Key) (j : Nat) : Int := k.tags.getD j 0

/-! ### handler.go: lessThan -/

/-- the loop over the marker's tags: the first listed tag that differs decides -/
def tagsDecide (fromEnd : Bool) : List (Nat × Int) → Key → Option Bool
  | [], _ => none
  | (j, v) :: rest, k =>
    if v ≠ tagAt k j then some (if fromEnd then decide (v > tagAt k j) else decide (v < tagAt k j))
    else tagsDecide fromEnd rest k

def skeyDecide (l r : Nat) (orEq fromEnd : Bool) : Bool :=
  if fromEnd then (if orEq then decide (l ≥ r) else decide (l > r))
  else (if orEq then decide (l ≤ r) else decide (l < r))

def lessThan (l : Marker) (k : Key) (orEq fromEnd : Bool) : Bool :=
  if l.time ≠ k.time then (if fromEnd then decide (l.time > k.time) else decide (l.time < k.time))
  else match tagsDecide fromEnd l.tags k with
    | some b => b
    | none => skeyDecide l.skey k.skey orEq fromEnd

/-! ### table.go: inRange -/

structure Win where
  frm : Marker
  to : Marker
  fromEnd : Bool
deriving DecidableEq, Repr

def afterFrom (w : Win) (k : Key) : Bool := w.frm.time == 0 || lessThan w.frm k false w.fromEnd
def beforeTo (w : Win) (k : Key) : Bool := w.to.time == 0 || !lessThan w.to k true w.fromEnd
def inRange (w : Win) (r : Row) : Bool := afterFrom w r.key && beforeTo w r.key

/-! ### table.go: limitQueries -/

/-- old code only: `len(rows) > 0 && !inRange(rows[0]) && !inRange(rows[len(rows)-1])` -/
def skipGroup (w : Win) (g : List Row) : Bool :=
  match g.head?, g.getLast? with
  | some a, some b => !inRange w a && !inRange w b
  | _, _ => false

def limitFirst : Variant → Bool
  | .old => true
  | .fixed => false

def skipsGroups : Variant → Bool
  | .old => true
  | .fixed => false

/-- the inner loop over one time group. `n` = limit − len(limitedRows). Result: rows appended, whether the
    function returned `true` from inside the loop, and the new `n`. -/
def scanRows (v : Variant) (w : Win) : Nat → List Row → List Row × Bool × Nat
  | n, [] => ([], false, n)
  | n, r :: rs =>
    if limitFirst v then
      if n = 0 then ([], true, 0)
      else if inRange w r then
        let t := scanRows v w (n - 1) rs
        (r :: t.1, t.2.1, t.2.2)
      else scanRows v w n rs
    else
      if inRange w r then
        if n = 0 then ([], true, 0)
        else
          let t := scanRows v w (n - 1) rs
          (r :: t.1, t.2.1, t.2.2)
      else scanRows v w n rs

/-- the outer loop over the time groups (already in visiting order) -/
def scanGroups (v : Variant) (w : Win) : Nat → List (List Row) → List Row × Bool
  | _, [] => ([], false)
  | n, g :: gs =>
    if skipsGroups v && skipGroup w g then scanGroups v w n gs
    else
      let t := scanRows v w n g
      if t.2.1 then (t.1, true)
      else
        let u := scanGroups v w t.2.2 gs
        (t.1 ++ u.1, u.2)

/-- visiting order: `if fromEnd { i = len(rowsByTime) - i - 1 }` -/
def dir {α} (fromEnd : Bool) (l : List α) : List α := if fromEnd then l.reverse else l

def limitQueries (v : Variant) (w : Win) (groups : List (List Row)) (limit : Int) : List Row × Bool :=
  match v with
  | .old => if limit ≤ 0 then ([], !groups.isEmpty) else scanGroups .old w limit.toNat (dir w.fromEnd groups)
  | .fixed => scanGroups .fixed w limit.toNat (dir w.fromEnd groups)

/-! ### table.go: getTableFromLODs -/

structure Lod where
  frm : Int
  to : Int
deriving DecidableEq, Repr

structure Req where
  win : Win
  limit : Int               -- numResults
  gby : List Nat            -- indices of the grouped numeric tags, ascending (the loop j = 0 … MaxTags-1)
  bySkey : Bool             -- `by` contains "_s"
  cols : List (List Nat)    -- per handler-what: value field of each column
deriving DecidableEq, Repr

/-- fromTime, toTime: the marker times, swapped for fromEnd -/
def fromTime (q : Req) : Int := if q.win.fromEnd then q.win.to.time else q.win.frm.time
def toTime (q : Req) : Int := if q.win.fromEnd then q.win.frm.time else q.win.to.time

/-- `toTime < x` where `toTime == 0` has been replaced by math.MaxInt -/
def aboveTo (q : Req) (x : Int) : Bool := toTime q != 0 && decide (toTime q < x)

def lodSkipped (q : Req) (l : Lod) : Bool := aboveTo q l.frm || decide (l.to < fromTime q)
def timeSkipped (q : Req) (r : Row) : Bool := aboveTo q r.key.time || decide (r.key.time < fromTime q)

/-- a table row under construction: `queryRows[ix]` plus membership of `ix` in `used` -/
structure ORow where
  key : Key
  data : List (Option Int)
  used : Bool
deriving DecidableEq, Repr

def rowVals (cols : List Nat) (r : Row) : List (Option Int) := cols.map (fun f => some (r.vals.getD f 0))

def hasKey (out : List ORow) (k : Key) : Bool := out.any (fun o => o.key == k)

/-- body of the row loop after the time test: look the key up in rowsIdx, create the row (padded with NaN for
    the earlier handler-whats) if absent, mark it used, append this handler-what's values -/
def addRow (pad : Nat) (cols : List Nat) (out : List ORow) (r : Row) : List ORow :=
  if hasKey out r.key then
    out.map (fun o => if o.key == r.key then { o with data := o.data ++ rowVals cols r, used := true } else o)
  else
    out ++ [{ key := r.key, data := List.replicate pad none ++ rowVals cols r, used := true }]

/-- NaNs a new row gets for the handler-whats before the current one -/
def padBefore (v : Variant) (prev : List (List Nat)) : Nat :=
  match v with
  | .old => prev.length
  | .fixed => (prev.map List.length).sum

/-- NaNs a row gets at the end of a pass in which it received no value -/
def padMissing (v : Variant) (cols : List Nat) : Nat :=
  match v with
  | .old => 1
  | .fixed => cols.length

/-- the loop over the LODs (already in visiting order) for one handler-what.
    `none` = loadPoints returned an error. Result: rows, hasMore of this pass. -/
def lodLoop (v : Variant) (q : Req) (pad : Nat) (cols : List Nat) :
    List (Lod × Option (List (List Row))) → Nat → List ORow → Option (List ORow × Bool)
  | [], _, out => some (out, false)
  | (l, ans) :: rest, cnt, out =>
    if lodSkipped q l then lodLoop v q pad cols rest cnt out
    else match ans with
      | none => none
      | some groups =>
        let lq := limitQueries v q.win groups (q.limit - cnt)
        let rows := lq.1.filter (fun r => !timeSkipped q r)
        let out' := rows.foldl (addRow pad cols) out
        if lq.2 then some (out', true)
        else lodLoop v q pad cols rest (cnt + rows.length) out'

/-- the loop over rowsIdx after all LODs of one handler-what -/
def endPass (v : Variant) (cols : List Nat) (out : List ORow) : List ORow :=
  out.map (fun o => if o.used then { o with used := false }
                    else { o with data := o.data ++ List.replicate (padMissing v cols) none })

/-- the loop over the handler-whats. `prev` = the handler-whats already done; `todo` pairs each remaining
    handler-what with its storage answers per LOD (LODs already in visiting order). -/
def whatLoop (v : Variant) (q : Req) :
    List (List Nat) → List (List Nat × List (Lod × Option (List (List Row)))) → List ORow → Bool → Option (List ORow × Bool)
  | _, [], out, more => some (out, more)
  | prev, (cols, answers) :: rest, out, more =>
    match lodLoop v q (padBefore v prev) cols answers 0 out with
    | none => none
    | some r => whatLoop v q (prev ++ [cols]) rest (endPass v cols r.1) (more || r.2)

/-! ### handler.go: queryTableRows.Less on rowRepr, and the final sort -/

structure RowRepr where
  time : Int
  tags : List Int
  skey : Nat
deriving DecidableEq, Repr

/-- rowRepr of a row (numeric tag 47 is assumed 0, so SKey is the string-top value when grouped by it) -/
def reprOf (q : Req) (k : Key) : RowRepr :=
  { time := k.time, tags := q.gby.map (tagAt k), skey := if q.bySkey then k.skey else 0 }

def tagsLess : List Int → List Int → Option Bool
  | a :: as, b :: bs => if a ≠ b then some (decide (a < b)) else tagsLess as bs
  | _, _ => none

def less (l r : RowRepr) : Bool :=
  if l.time ≠ r.time then decide (l.time < r.time)
  else if l.tags.length ≠ r.tags.length then decide (l.tags.length < r.tags.length)
  else match tagsLess l.tags r.tags with
    | some b => b
    | none => decide (l.skey < r.skey)

/-- `sort.Sort(queryRows)` / `sort.Sort(sort.Reverse(queryRows))` -/
def lessDir (q : Req) (a b : ORow) : Bool :=
  if q.win.fromEnd then less (reprOf q b.key) (reprOf q a.key) else less (reprOf q a.key) (reprOf q b.key)

/-- sort.Sort is not stable: the order of rows with equal rowRepr is unspecified. The model orders such
    rows by their full key (the harness canonicalises the implementation's output the same way). -/
def keyLess (a b : Key) : Bool :=
  match tagsLess a.tags b.tags with
  | some x => x
  | none => decide (a.skey < b.skey)

def before (q : Req) (a b : ORow) : Bool :=
  lessDir q a b || (!lessDir q b a && keyLess a.key b.key)

def insertRow (q : Req) (x : ORow) : List ORow → List ORow
  | [] => [x]
  | y :: ys => if before q x y then x :: y :: ys else y :: insertRow q x ys

def sortRows (q : Req) : List ORow → List ORow
  | [] => []
  | x :: xs => insertRow q x (sortRows q xs)

/-- getTableFromLODs. `lods` in the order of the caller's slice; `store[i]` = answers of handler-what `i`,
    one per LOD, in the same order. -/
def getTable (v : Variant) (q : Req) (lods : List Lod) (store : List (List (Option (List (List Row))))) :
    Option (List ORow × Bool) :=
  let todo := (q.cols.zip store).map (fun p => (p.1, dir q.win.fromEnd (lods.zip p.2)))
  match whatLoop v q [] todo [] false with
  | none => none
  | some r => some (sortRows q r.1, r.2)

/-! ### handler.go: handleGetTable — the order in which the LODs reach getTableFromLODs -/

/-- `GetLODs` returns the LODs in ascending time order. `Caller.keeps` is handleGetTable after
    /verif/fixes/C25-descending-lod-order.diff (the list is passed on as it is); `Caller.reversesFromEnd` is the code
    before it, which reversed the list for `fromEnd` although getTableFromLODs walks it from the end itself. -/
inductive Caller | keeps | reversesFromEnd
deriving DecidableEq, Repr

def callerOrder {α} (c : Caller) (fromEnd : Bool) (l : List α) : List α :=
  match c with
  | .keeps => l
  | .reversesFromEnd => if fromEnd then l.reverse else l

/-- handleGetTable from the LOD list on: `lods` ascending in time, `store[i][k]` the answer for handler-what `i`, LOD `k` -/
def handleGetTable (c : Caller) (v : Variant) (q : Req) (lods : List Lod) (store : List (List (Option (List (List Row))))) :
    Option (List ORow × Bool) :=
  getTable v q (callerOrder c q.win.fromEnd lods) (store.map (callerOrder c q.win.fromEnd))

/-! ### the row marker stored in a table row by the code before 8d8821bd (shared `rowRepr.Tags` backing array)

  Before the fix `var rowRepr RowMarker` was declared once per storage answer and `rowRepr.Tags = rowRepr.Tags[:0]`
  re-used its backing array for every row of that answer. Every table row created while one answer was processed
  kept a slice of that one array, so after the answer was processed all of them showed the grouped tags of the LAST
  row of the answer (created or not). The final sort and the FromRow/ToRow markers of the response read these tags.
  `batches` = per processed storage answer the rows handed to the row loop, in processing order. -/

/-- like the LOD loop, but keeps the rows of each storage answer apart -/
def passBatches (v : Variant) (q : Req) : List (Lod × Option (List (List Row))) → Nat → List (List Row)
  | [], _ => []
  | (l, ans) :: rest, cnt =>
    if lodSkipped q l then passBatches v q rest cnt
    else match ans with
      | none => []
      | some groups =>
        let lq := limitQueries v q.win groups (q.limit - cnt)
        let rows := lq.1.filter (fun r => !timeSkipped q r)
        if lq.2 then [rows] else rows :: passBatches v q rest (cnt + rows.length)

/-- the grouped tags the old code left in the row marker of the table row with key `k` -/
def aliasedTags (q : Req) (batches : List (List Row)) (k : Key) : List Int :=
  match batches.find? (fun b => b.any (fun r => r.key == k)) with
  | some b => match b.getLast? with
    | some r => q.gby.map (tagAt r.key)
    | none => q.gby.map (tagAt k)
  | none => q.gby.map (tagAt k)

def aliasedRepr (q : Req) (batches : List (List Row)) (k : Key) : RowRepr :=
  { reprOf q k with tags := aliasedTags q batches k }

/-- the old code's final sort compares the aliased markers (ascending; rows it cannot tell apart keep the model's
    insertion order, which Go's sort does not promise either) -/
def insertAliased (q : Req) (bs : List (List Row)) (x : ORow) : List ORow → List ORow
  | [] => [x]
  | y :: ys => if less (aliasedRepr q bs x.key) (aliasedRepr q bs y.key) then x :: y :: ys else y :: insertAliased q bs x ys

def sortAliased (q : Req) (bs : List (List Row)) : List ORow → List ORow
  | [] => []
  | x :: xs => insertAliased q bs x (sortAliased q bs xs)

/-- getTableFromLODs before 8d8821bd for an ascending request: rows as the old loops build them, ordered by the
    aliased markers; each row is returned with the marker tags it carries -/
def getTableAliased (q : Req) (lods : List Lod) (store : List (List (Option (List (List Row))))) :
    Option (List (Key × List Int)) :=
  let todo := (q.cols.zip store).map (fun p => (p.1, dir q.win.fromEnd (lods.zip p.2)))
  let bs := todo.flatMap (fun t => passBatches .old q t.2 0)
  match whatLoop .old q [] todo [] false with
  | none => none
  | some r => some ((sortAliased q bs r.1).map (fun o => (o.key, aliasedTags q bs o.key)))

/-! ### promql.go: getHandlerWhat — grouping the requested functions into storage queries

  A requested function is its `promql.DigestWhat` code plus (harness data) the stored value field its column shows.
  `selectorOf` mirrors `DigestWhat.Selector()`: (data_model.DigestWhat, argument in 1/1000); the harness compares the
  table with the real function for every code (`seltab`). getHandlerWhat sorts the request by digest code, opens a
  storage query with the first function and lets it absorb the following functions while it has fewer than
  `tsValueCount` = 7 selectors (a function whose selector differs from the last one added takes a new slot); the
  first function that finds the query full opens the next query. Every function is appended to the `sel` of the query
  that absorbs it. -/

structure Fn where
  digest : Nat
  field : Nat
deriving DecidableEq, Repr

def pctl (a : Nat) : Nat × Nat := (6, a)

def selectorOf (d : Nat) : Nat × Nat :=
  if d = 1 ∨ d = 2 ∨ d = 3 then (2, 0)          -- count, count_sec, count_raw
  else if d = 4 ∨ d = 5 ∨ d = 6 then (5, 0)     -- sum, sum_sec, sum_raw
  else if d = 7 then (1, 0)                     -- avg
  else if d = 8 then (4, 0)                     -- min
  else if d = 9 then (3, 0)                     -- max
  else if d = 10 then pctl 1 else if d = 11 then pctl 10 else if d = 12 then pctl 50 else if d = 13 then pctl 100
  else if d = 14 then pctl 250 else if d = 15 then pctl 500 else if d = 16 then pctl 750 else if d = 17 then pctl 900
  else if d = 18 then pctl 950 else if d = 19 then pctl 990 else if d = 20 then pctl 999
  else if d = 21 ∨ d = 22 then (7, 0)           -- stddev, stdvar
  else if d = 23 ∨ d = 24 ∨ d = 25 then (8, 0)  -- cardinality*
  else if d = 26 ∨ d = 27 then (9, 0)           -- unique, unique_sec (unique_raw is not listed in Selector())
  else (0, 0)

def tsValueCount : Nat := 7

/-- `sort.Slice(whats, Digest <)` — insertion sort by digest code (functions with equal codes are identical) -/
def insertFn (x : Fn) : List Fn → List Fn
  | [] => [x]
  | y :: ys => if x.digest < y.digest then x :: y :: ys else y :: insertFn x ys

def sortFns : List Fn → List Fn
  | [] => []
  | x :: xs => insertFn x (sortFns xs)

structure HandlerWhat where
  sel : List Fn               -- columns, in order
  qry : List (Nat × Nat)      -- selectors in use, at most tsValueCount
deriving DecidableEq, Repr

/-- loop state: finished queries (latest first), the query being filled (`tail`) -/
structure GroupState where
  done : List HandlerWhat
  cur : HandlerWhat

def newQuery (w : Fn) : HandlerWhat := { sel := [w], qry := [selectorOf w.digest] }

/-- one function: absorbed by the current query while it has a free slot (`n < len(tail.qry)`, `n` = selectors in
    use), else it opens the next query -/
def groupStep (s : GroupState) (w : Fn) : GroupState :=
  if s.cur.qry.length < tsValueCount then
    if s.cur.qry.getLast? ≠ some (selectorOf w.digest) then
      { s with cur := { sel := s.cur.sel ++ [w], qry := s.cur.qry ++ [selectorOf w.digest] } }
    else
      { s with cur := { s.cur with sel := s.cur.sel ++ [w] } }
  else
    { done := s.cur :: s.done, cur := newQuery w }

def groupSorted : List Fn → List HandlerWhat
  | [] => []
  | w :: ws =>
    let s := ws.foldl groupStep { done := [], cur := newQuery w }
    (s.cur :: s.done).reverse

/-- getHandlerWhat on the request as the client sent it -/
def getHandlerWhat (request : List Fn) : List HandlerWhat := groupSorted (sortFns request)

/-- the `cols` of a table request: per storage query the value field of each of its columns -/
def colsOf (request : List Fn) : List (List Nat) := (getHandlerWhat request).map (fun g => g.sel.map (·.field))

/-! ### a slimmer row key (seeded change C25-r4-2, kept as a variant for a witness)

  `tableRowKey{time, tag [MaxTags]int64, skey}` keeps the integer tag values and the string-top key and drops the other
  string values. In the model: only the first `nInt` entries of `tags` take part in the key. Looking rows up by the slim
  key is the same as running the loops on storage answers whose keys have been slimmed (the table row then keeps the
  tags of the first storage row that created it). -/

def slimKey (nInt : Nat) (k : Key) : Key := { k with tags := k.tags.take nInt }

def slimStore (nInt : Nat) (store : List (List (Option (List (List Row))))) : List (List (Option (List (List Row)))) :=
  store.map (fun perLod => perLod.map (fun ans => ans.map (fun groups =>
    groups.map (fun g => g.map (fun r => { r with key := slimKey nInt r.key })))))

end SH.Table
