/-
  SH.Model.Unique — model of internal/data_model/ch_unique.go (property C04, unique-value sketch).

  What is modelled, branch for branch: Reset, good, insertImpl (as set insertion + itemsCount++),
  rehash (drop the values that are not divisible by 2^skipDegree, itemsCount-- per dropped value),
  shrinkIfNeed (maxFill test, thinning loop, resize), insertHash, Insert (uintHash32), Merge, the wire
  image written by MarshallAppend, UmMarshall and MergeRead.

  What is abstracted: the open-addressing table `buf` (place / collision chains / reinsertImpl / the data
  movement of resize) is a finite SET of 32-bit values; `hasZeroItem` is membership of the value 0.
  `sizeDegree` is kept because shrinkIfNeed branches on maxFill = 2^(sizeDegree-1).
  The set is a binary trie over the bits of the value, least significant bit first, so that one insertion
  costs `bits` steps and the compiled model can replay sketches with more than 2^16 values;
  "divisible by 2^k" is "the path starts with k zero branches".

  Parameters (`Params`): number of hash bits, uniquesHashMaxSizeDegree, uniquesHashSetInitialSizeDegree.
  `real` = (32, 17, 4) is what the code uses; the theorems are for arbitrary parameters and the `decide`
  witnesses use a toy instance.

  Variants: `MergeV.chGood` is ChUnique.Merge after the fix (incoming values filtered with the receiver's
  skipDegree); `MergeV.rhsGood` is the code before it (F2). `ReadV.adopt` is MergeRead after the fix (the
  receiver adopts a larger incoming skipDegree before rehash); `ReadV.stale` is the code before it (F3).
  `SdV.clamp` bounds the table degree chosen by the readers by uniquesHashMaxSizeDegree (after the fix);
  `SdV.exact` is the code before it (log2(ic) + 2 gives sizeDegree 18 for exactly 2^16 values, so that
  shrinkIfNeed does not thin before 2^17 values are stored).
-/
namespace SH.Unique

/-! ### the set of stored values: a bit trie, least significant bit first -/

inductive Trie where
  | nil
  | node (here : Bool) (z o : Trie)
deriving DecidableEq, Repr

namespace Trie

def zc : Trie → Trie
  | nil => nil
  | node _ z _ => z

def oc : Trie → Trie
  | nil => nil
  | node _ _ o => o

def hr : Trie → Bool
  | nil => false
  | node h _ _ => h

/-- `insert d x t`: add the value `x` (its `d` low bits) below a node that has `d` bits left -/
def insert : Nat → Nat → Trie → Trie
  | 0, _, t => node true t.zc t.oc
  | d + 1, x, t =>
    if x % 2 = 0 then node t.hr (insert d (x / 2) t.zc) t.oc
    else node t.hr t.zc (insert d (x / 2) t.oc)

def mem : Nat → Nat → Trie → Bool
  | 0, _, t => t.hr
  | d + 1, x, t => if x % 2 = 0 then mem d (x / 2) t.zc else mem d (x / 2) t.oc

def size : Nat → Trie → Nat
  | _, nil => 0
  | 0, node h _ _ => if h then 1 else 0
  | d + 1, node _ z o => size d z + size d o

/-- keep the values divisible by 2^k -/
def thin : Nat → Nat → Trie → Trie
  | _, 0, t => t
  | _, _, nil => nil
  | 0, _ + 1, t => t
  | d + 1, k + 1, node h z _ => node h (thin d k z) nil

/-- the stored values, in trie order (a function of the set only) -/
def toList : Nat → Trie → List Nat
  | _, nil => []
  | 0, node h _ _ => if h then [0] else []
  | d + 1, node _ z o => (toList d z).map (fun x => 2 * x) ++ (toList d o).map (fun x => 2 * x + 1)

end Trie

/-! ### the sketch -/

structure Params where
  bits : Nat       -- width of a hash value (32)
  maxDeg : Nat     -- uniquesHashMaxSizeDegree (17)
  initDeg : Nat    -- uniquesHashSetInitialSizeDegree (4)
deriving DecidableEq, Repr

def real : Params := { bits := 32, maxDeg := 17, initDeg := 4 }

/-- uniquesHashMaxSize -/
def limit (P : Params) : Nat := 2 ^ (P.maxDeg - 1)

structure Sk where
  alloc : Bool     -- buf != nil
  k : Nat          -- skipDegree
  sd : Nat         -- sizeDegree
  cnt : Nat        -- itemsCount
  items : Trie     -- non-zero slots of buf, plus 0 iff hasZeroItem
deriving DecidableEq, Repr

/-- the zero value `ChUnique{}` -/
def nilSk : Sk := { alloc := false, k := 0, sd := 0, cnt := 0, items := .nil }

def reset (P : Params) : Sk := { alloc := true, k := 0, sd := P.initDeg, cnt := 0, items := .nil }

/-- `if ch.buf == nil { ch.Reset() }` -/
def ensure (P : Params) (s : Sk) : Sk := if s.alloc then s else reset P

def maxFill (s : Sk) : Nat := 2 ^ (s.sd - 1)

/-- `x == ((x >> k) << k)`; for k ≥ 32 Go's shifts give 0, i.e. only x = 0 is good — same as here for x < 2^32 -/
def good (k x : Nat) : Bool := x % 2 ^ k == 0

def has (P : Params) (s : Sk) (x : Nat) : Bool := s.items.mem P.bits x

/-- insertImpl: no-op when present, else store and itemsCount++ (x = 0 is the hasZeroItem flag) -/
def insertImpl (P : Params) (s : Sk) (x : Nat) : Sk :=
  if has P s x then s else { s with items := s.items.insert P.bits x, cnt := s.cnt + 1 }

/-- rehash: every stored value that is not good is removed and itemsCount decremented -/
def rehash (P : Params) (s : Sk) : Sk :=
  { s with items := s.items.thin P.bits s.k,
           cnt := s.cnt - (s.items.size P.bits - (s.items.thin P.bits s.k).size P.bits) }

def overLimit (P : Params) (s : Sk) : Bool := limit P < s.cnt
def fits (s : Sk) : Bool := s.cnt ≤ maxFill s

/-- `for ch.itemsCount > uniquesHashMaxSize { ch.skipDegree++; ch.rehash() }` (fuel: at skipDegree = bits only 0 is left) -/
def thinLoop (P : Params) : Nat → Sk → Sk
  | 0, s => s
  | f + 1, s => if overLimit P s then thinLoop P f (rehash P { s with k := s.k + 1 }) else s

def shrinkIfNeed (P : Params) (s : Sk) : Sk :=
  if fits s then s
  else if overLimit P s then thinLoop P (P.bits + 1) s
  else { s with sd := s.sd + 1 }

def insertHash (P : Params) (s : Sk) (x : Nat) : Sk :=
  if good s.k x then shrinkIfNeed P (insertImpl P s x) else s

/-- Перенос из ClickHouse Hash.h: intHash32 -/
def uintHash32 (key : UInt64) : UInt32 :=
  let k := (~~~key) + (key <<< 18)
  let k := k ^^^ ((k >>> 31) ||| (k <<< 33))
  let k := k * 21
  let k := k ^^^ ((k >>> 11) ||| (k <<< 53))
  let k := k + (k <<< 6)
  let k := k ^^^ ((k >>> 22) ||| (k <<< 42))
  k.toUInt32

/-- ChUnique.Insert -/
def insertVal (P : Params) (s : Sk) (v : UInt64) : Sk :=
  insertHash P (ensure P s) (uintHash32 v).toNat

/-! ### Merge -/

inductive MergeV | chGood | rhsGood
deriving DecidableEq, Repr

/-- `if rhs.skipDegree > ch.skipDegree { ch.skipDegree = rhs.skipDegree; ch.rehash() }` -/
def adopt (P : Params) (ch : Sk) (k : Nat) : Sk :=
  if ch.k < k then rehash P { ch with k := k } else ch

/-- `if !ch.hasZeroItem && rhs.hasZeroItem { ch.hasZeroItem = true; ch.itemsCount++; ch.shrinkIfNeed() }` -/
def mergeZero (P : Params) (ch rhs : Sk) : Sk :=
  if !has P ch 0 && has P rhs 0 then shrinkIfNeed P (insertImpl P ch 0) else ch

/-- loop body of Merge for one non-zero slot of rhs.buf. `rk` is rhs.skipDegree. -/
def mergeItem (v : MergeV) (P : Params) (rk : Nat) (ch : Sk) (x : Nat) : Sk :=
  let fk := match v with
    | .chGood => ch.k
    | .rhsGood => rk
  if good fk x then shrinkIfNeed P (insertImpl P ch x) else ch

/-- Merge with the traversal order of rhs.buf given explicitly (`order` lists the non-zero values of rhs) -/
def mergeWith (v : MergeV) (P : Params) (ch rhs : Sk) (order : List Nat) : Sk :=
  if !rhs.alloc then ch
  else order.foldl (mergeItem v P rhs.k) (mergeZero P (adopt P (ensure P ch) rhs.k) rhs)

def nonZero (P : Params) (s : Sk) : List Nat := (s.items.toList P.bits).filter (fun x => x != 0)

/-- ChUnique.Merge; the model walks rhs in trie order (for `.chGood` every order gives the same result: Props/C04) -/
def merge (v : MergeV) (P : Params) (ch rhs : Sk) : Sk := mergeWith v P ch rhs (nonZero P rhs)

/-! ### wire image, UmMarshall, MergeRead -/

inductive ReadV | adopt | stale
deriving DecidableEq, Repr

inductive SdV | clamp | exact
deriving DecidableEq, Repr

/-- sizeDegree chosen for `ic` values: `uint32(math.Log2(float64(ic)) + 2)`, at least the initial degree -/
def sdFor (w : SdV) (P : Params) (ic : Nat) : Nat :=
  if 1 < ic then
    match w with
    | .exact => max P.initDeg (Nat.log2 ic + 2)
    | .clamp => min P.maxDeg (max P.initDeg (Nat.log2 ic + 2))
  else P.initDeg

structure Wire where
  k : Nat
  ic : Nat
  xs : List Nat     -- zero first (if present), then the non-zero values
deriving DecidableEq, Repr

/-- MarshallAppend: (0,0) for a nil sketch, else skipDegree, itemsCount, [0], values -/
def marshal (P : Params) (s : Sk) : Wire :=
  if s.alloc then
    { k := s.k, ic := s.cnt, xs := (if has P s 0 then [0] else []) ++ nonZero P s }
  else { k := 0, ic := 0, xs := [] }

/-- UmMarshall (and ReadFrom) for a well formed image: itemsCount := ic, values reinserted -/
def unmarshal (w : SdV) (P : Params) (m : Wire) : Sk :=
  { alloc := true, k := m.k, sd := sdFor w P m.ic, cnt := m.ic,
    items := m.xs.foldl (fun t x => t.insert P.bits x) .nil }

def readAdopt (v : ReadV) (P : Params) (ch : Sk) (k : Nat) : Sk :=
  if ch.k < k then
    match v with
    | .adopt => rehash P { ch with k := k }
    | .stale => rehash P ch
  else ch

/-- `if (1 << ch.sizeDegree) < ic { ch.resize(newSD) }` -/
def readResize (w : SdV) (P : Params) (ch : Sk) (ic : Nat) : Sk :=
  if 2 ^ ch.sd < ic then { ch with sd := sdFor w P ic } else ch

/-- MergeRead -/
def mergeRead (v : ReadV) (w : SdV) (P : Params) (ch : Sk) (m : Wire) : Sk :=
  if !ch.alloc then unmarshal w P m
  else m.xs.foldl (insertHash P) (readResize w P (readAdopt v P ch m.k) m.ic)

/-- Size(asIs = true): itemsCount << skipDegree. Size(false) is a fixed function of (itemsCount, skipDegree). -/
def sizeAsIs (s : Sk) : Nat := s.cnt * 2 ^ s.k

end SH.Unique
