/-
  SH.Model.Sql — executable model of the storage-query where-clause builder (C26).

  Code modelled (/repo/internal/api):
    sql_query_series.go : escapeReplacer, writeWhere, writeTimeClause, ensurePrimaryKeyPrefix, writeMetricFilter,
                          writeTagFilter, whereIntExpr, raw64
    sql.go              : preKeyTagX, singleMetric, metricID, colInt/colIntV3, colStr, raw64Expr, groupedBy
    data_model/query_filter.go : TagValue (HasValue/IsMapped/Empty), TagFilter.Empty
  (sql_query_tag_values.go builds its where-clause through the same writeWhere with another `mode`.)

  Plus a model of the consumer: ClickHouse's single-quoted string literal lexer/decoder (`lexLit`, `scan`) — written from
  ClickHouse's Lexer.cpp `quotedString` and ReadHelpers.cpp `parseComplexEscapeSequence` as remembered/documented; it is
  NOT derived from /repo (ClickHouse is not part of it) and is part of the trusted base.

  Core Lean only: linked into `drv_c26`.
-/
import SH.Model.Core

namespace SH.Sql

abbrev Bytes := List UInt8

/-- `'` -/
def q : UInt8 := 39
/-- `\` -/
def bs : UInt8 := 92

/-- bytes of an ASCII string constant of the Go source -/
def str (s : String) : Bytes := s.toList.map (fun c => c.toNat.toUInt8)

/-! ### escapeReplacer = strings.NewReplacer(`'`, `\'`, `\`, `\\`)  (all old strings are one byte: a per-byte replacer) -/

def escape : Bytes → Bytes
  | [] => []
  | c :: s =>
    if c = q then bs :: q :: escape s
    else if c = bs then bs :: bs :: escape s
    else c :: escape s

/-! ### ClickHouse quoted-literal lexer (the consumer of the text) -/

inductive LexSt where
  | normal            -- inside the literal
  | quote             -- just read a `'` inside the literal: doubled quote or end of literal
  | esc               -- just read a `\`
  | hex1              -- read `\x`
  | hex2 (hi : UInt8) -- read `\x` and one hex digit
deriving DecidableEq, Repr

def consO (c : UInt8) (o : Option (Bytes × Bytes)) : Option (Bytes × Bytes) :=
  match o with
  | none => none
  | some p => some (c :: p.1, p.2)

def appO (pre : Bytes) (o : Option (Bytes × Bytes)) : Option (Bytes × Bytes) :=
  match o with
  | none => none
  | some p => some (pre ++ p.1, p.2)

def isHex (c : UInt8) : Bool := (48 ≤ c && c ≤ 57) || (97 ≤ c && c ≤ 102) || (65 ≤ c && c ≤ 70)

def unhex (c : UInt8) : UInt8 :=
  if 48 ≤ c && c ≤ 57 then c - 48 else if 97 ≤ c && c ≤ 102 then c - 97 + 10 else c - 65 + 10

/-- parseEscapeSequence: \a \b \e \f \n \r \t \v \0, any other character stands for itself -/
def escSeq (c : UInt8) : UInt8 :=
  if c = 97 then 7 else if c = 98 then 8 else if c = 101 then 27 else if c = 102 then 12
  else if c = 110 then 10 else if c = 114 then 13 else if c = 116 then 9 else if c = 118 then 11
  else if c = 48 then 0 else c

/-- unrecognised escapes keep their backslash (`\%`, `\.` …) -/
def keepsBackslash (e : UInt8) : Bool :=
  e != 92 && e != 39 && e != 34 && e != 96 && e != 47 && e != 61 && e > 31

def escOut (c : UInt8) : Bytes :=
  if keepsBackslash (escSeq c) then [92, escSeq c] else [escSeq c]

/-- Reads a literal whose opening quote has been consumed. Result: decoded bytes and the rest of the input after the
    closing quote; `none` = the literal is not terminated / has a broken `\x` escape. -/
def lexLit : LexSt → Bytes → Option (Bytes × Bytes)
  | .normal, [] => none
  | .normal, c :: r =>
    if c = q then lexLit .quote r
    else if c = bs then lexLit .esc r
    else consO c (lexLit .normal r)
  | .quote, [] => some ([], [])
  | .quote, c :: r =>
    if c = q then consO q (lexLit .normal r)      -- '' inside a literal is one quote
    else some ([], c :: r)
  | .esc, [] => none
  | .esc, c :: r =>
    if c = 120 then lexLit .hex1 r
    else if c = 78 then lexLit .normal r            -- \N : nothing
    else appO (escOut c) (lexLit .normal r)
  | .hex1, [] => none
  | .hex1, c :: r => if isHex c then lexLit (.hex2 c) r else none
  | .hex2 _, [] => none
  | .hex2 h, c :: r => if isHex c then consO (unhex h * 16 + unhex c) (lexLit .normal r) else none

/-- a complete literal including its opening quote -/
def unlit : Bytes → Option (Bytes × Bytes)
  | [] => none
  | c :: r => if c = q then lexLit .normal r else none

def scanLit (scanRest : Bytes → Option (List Bytes × Bytes)) (o : Option (Bytes × Bytes)) :
    Option (List Bytes × Bytes) :=
  match o with
  | none => none
  | some p =>
    match scanRest p.2 with
    | none => none
    | some r => some (p.1 :: r.1, 63 :: r.2)

def consSk (c : UInt8) (o : Option (List Bytes × Bytes)) : Option (List Bytes × Bytes) :=
  match o with
  | none => none
  | some r => some (r.1, c :: r.2)

/-- Splits SQL text into the decoded string literals and the skeleton: the text with every literal replaced by `?`.
    (No other token of the generated queries can contain a quote.) -/
def scan : Nat → Bytes → Option (List Bytes × Bytes)
  | 0, _ => none
  | _ + 1, [] => some ([], [])
  | fuel + 1, c :: rest =>
    if c = q then scanLit (scan fuel) (lexLit .normal rest)
    else consSk c (scan fuel rest)

def scanAll (b : Bytes) : Option (List Bytes × Bytes) := scan (b.length + 1) b

/-! ### numbers: fmt.Sprint of an integer -/

def digitsAux : Nat → Nat → Bytes → Bytes
  | 0, _, acc => acc
  | fuel + 1, n, acc =>
    if n < 10 then (48 + n).toUInt8 :: acc
    else digitsAux fuel (n / 10) ((48 + n % 10).toUInt8 :: acc)

def natBytes (n : Nat) : Bytes := digitsAux (n + 1) n []

def itoa (i : Int) : Bytes :=
  if i < 0 then 45 :: natBytes i.natAbs else natBytes i.natAbs

/-! ### inputs -/

/-- data_model.TagValue: flags + Value + Mapped -/
structure TagValue where
  hasValue : Bool
  isMapped : Bool
  value : Bytes
  mapped : Int
deriving DecidableEq, Repr

/-- TagValue.Empty() -/
def TagValue.empty (v : TagValue) : Bool :=
  v.hasValue && v.isMapped && v.value.isEmpty && v.mapped == 0

structure TagFilter where
  values : List TagValue
  re2 : Bytes
deriving DecidableEq, Repr

/-- TagFilter.Empty() -/
def TagFilter.isEmpty (f : TagFilter) : Bool := f.values.isEmpty && f.re2.isEmpty

def noFilter : TagFilter := { values := [], re2 := [] }

/-- what the where-clause reads from queryBuilder and LOD -/
structure Cfg where
  mode : Nat                 -- 0 buildSeriesQuery, 1 buildTagValuesQuery, 2 buildTagValueIDsQuery
  fromSec : Int
  toSec : Int
  hasPreKey : Bool
  hasMetric : Bool           -- b.metric != nil
  metricId : Int
  metricPk : Int             -- format.TagIndex(b.metric.PreKeyTagID)
  raw : List Nat             -- indices i < len(b.metric.Tags) with Tags[i].Raw()
  raw64 : List Nat           -- … with Tags[i].Raw64()
  groupBy : List Int
  fim : List (Int × Int)     -- filterIn.Metrics as (MetricID, TagIndex(PreKeyTagID))
  fnm : List (Int × Int)
deriving DecidableEq, Repr

def maxTags : Nat := 48

/-- queryBuilder.singleMetric -/
def singleMetric (c : Cfg) : Option (Int × Int) :=
  if c.hasMetric then some (c.metricId, c.metricPk)
  else match c.fim with
    | [m] => some m
    | _ => none

/-- queryBuilder.metricID -/
def metricID (c : Cfg) : Int :=
  match singleMetric c with
  | some m => m.1
  | none => 0

/-- queryBuilder.preKeyTagX -/
def preKeyTagX (c : Cfg) : Int :=
  match singleMetric c with
  | some m => m.2
  | none => -1

def isPreKeyTag (c : Cfg) (x : Nat) : Bool := c.hasPreKey && (Int.ofNat x == preKeyTagX c)

def isRaw (c : Cfg) (x : Nat) : Bool := c.hasMetric && c.raw.contains x
def isRaw64 (c : Cfg) (x : Nat) : Bool := c.hasMetric && c.raw64.contains x
def groupedBy (c : Cfg) (x : Nat) : Bool := c.groupBy.contains (Int.ofNat x)

/-- colIntV3 for a tag index 0…47 (the StringTop/Shard cases have negative indices and cannot come from the filter array) -/
def colInt (c : Cfg) (x : Nat) : Bytes :=
  if isPreKeyTag c x then str "pre_tag" else str "tag" ++ natBytes x

def colStr (x : Nat) : Bytes := str "stag" ++ natBytes x

def raw64Expr (c : Cfg) (x : Nat) : Bytes :=
  str "bitOr(bitShiftLeft(toInt64(toUInt32(" ++ colInt c (x + 1) ++ str ")),32),toUInt32(" ++ colInt c x ++ str "))"

/-- whereIntExpr -/
def whereIntExpr (c : Cfg) (x : Nat) : Bytes :=
  if c.mode == 0 && isPreKeyTag c x then str "_prekey"
  else if isRaw64 c x then
    (if groupedBy c x then str "_tag" ++ natBytes x else raw64Expr c x)
  else colInt c x

/-! ### the condition written for one tag (writeTagFilter), as a tree -/

inductive Atom where
  | constF                                   -- `0!=0`  (positive filter without mapped values)
  | constT                                   -- `0=0`   (negative filter without mapped values)
  | intIn (neg : Bool) (ids : List Int)      -- `<int> [NOT] IN (1,2)`
  | strIn (neg : Bool) (vals : List Bytes)   -- `<str> [NOT] IN ('a','b')`
  | reMatch (neg : Bool) (re : Bytes)        -- `[NOT ]match(<str>,'re')`
  | isEmpty (neg : Bool) (raw : Bool)        -- `[NOT ](<int>=0[ AND <str>=''])`
deriving DecidableEq, Repr

def liveValues (f : TagFilter) : List TagValue := f.values.filter (fun v => !v.empty)
def mappedIds (f : TagFilter) : List Int := ((liveValues f).filter (·.isMapped)).map (·.mapped)
def strVals (f : TagFilter) : List Bytes := ((liveValues f).filter (·.hasValue)).map (·.value)
def hasEmpty (f : TagFilter) : Bool := f.values.any (·.empty)

def mappedAtom (isIn : Bool) (f : TagFilter) : Atom :=
  if (mappedIds f).isEmpty then (if isIn then .constF else .constT) else .intIn (!isIn) (mappedIds f)

def stringAtoms (isIn raw : Bool) (f : TagFilter) : List Atom :=
  if raw then []
  else if !f.re2.isEmpty then [.reMatch (!isIn) f.re2]
  else if (strVals f).isEmpty then [] else [.strIn (!isIn) (strVals f)]

def emptyAtoms (isIn raw : Bool) (f : TagFilter) : List Atom :=
  if hasEmpty f then [.isEmpty (!isIn) raw] else []

/-- The clauses written for one tag, in order. In the Go code a `started` flag decides whether the separator is written;
    the first clause (mapped list or constant) is always written, so `started` is true for every later clause. -/
def tagAtoms (isIn raw : Bool) (f : TagFilter) : List Atom :=
  mappedAtom isIn f :: (stringAtoms isIn raw f ++ emptyAtoms isIn raw f)

/-! ### text -/

inductive Frag where
  | raw (b : Bytes)     -- text written by the builder itself (keywords, column names, numbers, punctuation)
  | lit (s : Bytes)     -- `'` ++ escape s ++ `'`
  | qraw (s : Bytes)    -- `'` ++ s ++ `'` : text put between quotes WITHOUT escaping (fmt.Sprintf("'%s'", …): the LOD's
                        -- time-zone name in the 1-month time column; configuration, not a filter value)
deriving DecidableEq, Repr

def Frag.bytes : Frag → Bytes
  | .raw b => b
  | .lit s => q :: (escape s ++ [q])
  | .qraw s => q :: (s ++ [q])

def flatten : List Frag → Bytes
  | [] => []
  | f :: fs => f.bytes ++ flatten fs

def lits : List Frag → List Bytes
  | [] => []
  | .raw _ :: fs => lits fs
  | .lit s :: fs => s :: lits fs
  | .qraw s :: fs => s :: lits fs

def skel : List Frag → Bytes
  | [] => []
  | .raw b :: fs => b ++ skel fs
  | .lit _ :: fs => 63 :: skel fs
  | .qraw _ :: fs => 63 :: skel fs

def commaInts : List Int → Bytes
  | [] => []
  | [a] => itoa a
  | a :: b :: rest => itoa a ++ 44 :: commaInts (b :: rest)

def commaLits : List Bytes → List Frag
  | [] => []
  | [a] => [.lit a]
  | a :: b :: rest => .lit a :: .raw [44] :: commaLits (b :: rest)

def opText (neg : Bool) : Bytes := if neg then str " NOT IN " else str " IN "
def notText (neg : Bool) : Bytes := if neg then str "NOT " else []
def sepText (isIn : Bool) : Bytes := if isIn then str " OR " else str " AND "

def Atom.frags (intE strE : Bytes) : Atom → List Frag
  | .constF => [.raw (str "0!=0")]
  | .constT => [.raw (str "0=0")]
  | .intIn neg ids => [.raw (intE ++ opText neg ++ str "(" ++ commaInts ids ++ str ")")]
  | .strIn neg vals => .raw (strE ++ opText neg ++ str "(") :: (commaLits vals ++ [.raw (str ")")])
  | .reMatch neg re => [.raw (notText neg ++ str "match(" ++ strE ++ str ","), .lit re, .raw (str ")")]
  | .isEmpty neg raw =>
    if raw then [.raw (notText neg ++ str "(" ++ intE ++ str "=0)")]
    else [.raw (notText neg ++ str "(" ++ intE ++ str "=0 AND " ++ strE ++ str "="), .lit [], .raw (str ")")]

def joinFrags (sep : Bytes) : List (List Frag) → List Frag
  | [] => []
  | [a] => a
  | a :: b :: rest => a ++ .raw sep :: joinFrags sep (b :: rest)

/-- writeTagFilter for one tag index -/
def tagFrags (c : Cfg) (isIn : Bool) (x : Nat) (f : TagFilter) : List Frag :=
  if f.isEmpty then []
  else .raw (str " AND (") ::
    (joinFrags (sepText isIn) ((tagAtoms isIn (isRaw c x) f).map (Atom.frags (whereIntExpr c x) (colStr x)))
      ++ [.raw (str ")")])

abbrev Filters := List (Nat × TagFilter)

/-- f.Tags[x] of the fixed-size array; indices never set hold the zero TagFilter -/
def Filters.get (fs : Filters) (x : Nat) : TagFilter :=
  match fs.find? (fun p => p.1 == x) with
  | some p => p.2
  | none => noFilter

def tagFilterFrags (c : Cfg) (isIn : Bool) (fs : Filters) : List Frag :=
  (List.range maxTags).flatMap (fun x => tagFrags c isIn x (fs.get x))

def metricList (ms : List (Int × Int)) : Bytes := commaInts (ms.map (·.1))

/-- writeMetricFilter -/
def metricFrags (c : Cfg) : List Frag :=
  if metricID c != 0 || (c.fim.isEmpty && c.fnm.isEmpty) then
    [.raw (str " AND metric=" ++ itoa (metricID c))]
  else
    (if c.fim.isEmpty then [] else [.raw (str " AND metric IN (" ++ metricList c.fim ++ str ")")]) ++
    (if c.fnm.isEmpty then [] else [.raw (str " AND metric NOT IN (" ++ metricList c.fnm ++ str ")")])

/-- writeTimeClause + ensurePrimaryKeyPrefix -/
def baseFrags (c : Cfg) : List Frag :=
  [.raw (str " WHERE time>=" ++ itoa c.fromSec ++ str " AND time<" ++ itoa c.toSec ++
      str " AND index_type=0 AND pre_tag=0 AND pre_stag="), .lit []]

/-- writeWhere -/
def whereFrags (c : Cfg) (fin fnotin : Filters) : List Frag :=
  baseFrags c ++ metricFrags c ++ tagFilterFrags c true fin ++ tagFilterFrags c false fnotin

def whereBytes (c : Cfg) (fin fnotin : Filters) : Bytes := flatten (whereFrags c fin fnotin)

/-! ### meaning of the condition on a row -/

/-- the two values a row has for one tag: the integer expression the where-clause uses for it, and its string column -/
structure TagRow where
  n : Int
  s : Bytes
deriving DecidableEq, Repr

def Atom.eval (re : Bytes → Bytes → Bool) (r : TagRow) : Atom → Bool
  | .constF => false
  | .constT => true
  | .intIn neg ids => ids.contains r.n != neg
  | .strIn neg vals => vals.contains r.s != neg
  | .reMatch neg p => re p r.s != neg
  | .isEmpty neg raw => (r.n == 0 && (raw || r.s.isEmpty)) != neg

/-- clauses of a positive filter are joined by OR, of a negative filter by AND -/
def evalAtoms (re : Bytes → Bytes → Bool) (isIn : Bool) (r : TagRow) (as : List Atom) : Bool :=
  if isIn then as.any (Atom.eval re r) else as.all (Atom.eval re r)

structure Row where
  time : Int
  indexType : Int
  preTag : Int
  preStag : Bytes
  metric : Int
  tags : List (Nat × TagRow)
deriving DecidableEq, Repr

def Row.tag (r : Row) (x : Nat) : TagRow :=
  match r.tags.find? (fun p => p.1 == x) with
  | some p => p.2
  | none => { n := 0, s := [] }

def tagSel (re : Bytes → Bytes → Bool) (c : Cfg) (isIn : Bool) (x : Nat) (f : TagFilter) (r : Row) : Bool :=
  f.isEmpty || evalAtoms re isIn (r.tag x) (tagAtoms isIn (isRaw c x) f)

def metricSel (c : Cfg) (m : Int) : Bool :=
  if metricID c != 0 || (c.fim.isEmpty && c.fnm.isEmpty) then m == metricID c
  else (c.fim.isEmpty || (c.fim.map (·.1)).contains m) && (c.fnm.isEmpty || !(c.fnm.map (·.1)).contains m)

def baseSel (c : Cfg) (r : Row) : Bool :=
  decide (c.fromSec ≤ r.time) && decide (r.time < c.toSec) && r.indexType == 0 && r.preTag == 0 && r.preStag.isEmpty

def evalWhere (re : Bytes → Bytes → Bool) (c : Cfg) (fin fnotin : Filters) (r : Row) : Bool :=
  baseSel c r && metricSel c r.metric &&
  (List.range maxTags).all (fun x => tagSel re c true x (fin.get x) r) &&
  (List.range maxTags).all (fun x => tagSel re c false x (fnotin.get x) r)

/-! ### the complete query texts (buildSeriesQuery, buildTagValuesQuery, buildTagValueIDsQuery) -/

/-- what the rest of the query text reads from queryBuilder, LOD and the `settings` argument -/
structure QCfg where
  step : Int                 -- lod.StepSec
  utcOffset : Int            -- b.utcOffset
  loc : Bytes                -- lod.Location.String()
  sharded : Bool             -- b.metric.Sharded()
  whats : List Nat           -- b.what[i].What, the 7 slots (data_model.DigestWhat as a number)
  minHost : Bool
  maxHost : Bool
  sort : Nat                 -- 0 sortNone, 1 sortAscending, 2 sortDescending
  settings : Bytes           -- the `settings` argument (Config.BuildSelectSettings)
  tagIndex : Int             -- b.tag.Index (tag-values queries)
  tagRaw : Bool              -- b.tag.Raw()
  tagRaw64 : Bool            -- b.tag.Raw64()
  numResults : Int
deriving DecidableEq, Repr

def stepMonth : Int := 2678400

/-- data_model.LODTables[Version6][step]; a step that is not in the map gives the empty string -/
def lodTable (step : Int) : Bytes :=
  if step == 1 || step == 5 || step == 15 then str "statshouse_v6_1s"
  else if step == 60 || step == 300 || step == 900 then str "statshouse_v6_1m"
  else if step == 3600 || step == 14400 || step == 86400 || step == 604800 || step == 2678400 then str "statshouse_v6_1h"
  else []

/-- preKeyTableName = lod.Table(b.metric.Sharded()) -/
def tableName (e : QCfg) : Bytes := lodTable e.step ++ (if e.sharded then [] else str "_dist")

/-- selAlias -/
def selAlias (c : Cfg) (x : Nat) : Bytes :=
  if isPreKeyTag c x then str "_prekey"
  else if isRaw64 c x then str "_tag" ++ natBytes x
  else colInt c x

/-- writeSelectInt: selectIntExpr, plus ` AS <alias>` when it is an expression -/
def selectIntText (c : Cfg) (x : Nat) : Bytes :=
  if isPreKeyTag c x then str "_prekey"
  else if isRaw64 c x then raw64Expr c x ++ str " AS " ++ selAlias c x
  else colInt c x

/-- writeSelectTime -/
def timeFrags (e : QCfg) : List Frag :=
  if e.step == stepMonth then
    [.raw (str "toInt64(toDateTime(toStartOfInterval(time,INTERVAL 1 MONTH,"), .qraw e.loc, .raw (str "),"), .qraw e.loc,
     .raw (str "))")]
  else
    [.raw (str "toInt64(toStartOfInterval(time+" ++ itoa e.utcOffset ++ str ",INTERVAL " ++ itoa e.step ++ str " second))-" ++
       itoa e.utcOffset)]

/-- state of the loop in writeSelectValues: `has`, the column counter `j`, the columns written so far -/
structure SelSt where
  has : List Nat
  j : Nat
  cols : List Bytes
deriving DecidableEq, Repr

def valCol (expr : Bytes) (j : Nat) : Bytes := expr ++ str " AS _val" ++ natBytes j

def addCol (expr : Bytes) (s : SelSt) : SelSt := { s with j := s.j + 1, cols := s.cols ++ [valCol expr s.j] }

/-- `if !has[k] { write; has[k] = true; j++ }` -/
def ensureCol (k : Nat) (expr : Bytes) (s : SelSt) : SelSt :=
  if s.has.contains k then s else { addCol expr s with has := k :: s.has }

def sumE : Bytes := str "toFloat64(sum(sum))"
def countE : Bytes := str "toFloat64(sum(count))"

/-- body of the switch for one digest kind (1 avg, 2 count, 3 max, 4 min, 5 sum, 6 percentile, 7 stddev, 8 cardinality,
    9 unique); `none` = "unsupported operation kind" -/
def selKind (w : Nat) (s : SelSt) : Option SelSt :=
  if w == 1 then some (ensureCol 2 countE (ensureCol 5 sumE s))
  else if w == 2 then some (addCol countE s)
  else if w == 3 then some (addCol (str "toFloat64(max(max))") s)
  else if w == 4 then some (addCol (str "toFloat64(min(min))") s)
  else if w == 5 then some (addCol sumE s)
  else if w == 7 then some (addCol (str "toFloat64(sum(sumsquare))") (ensureCol 2 countE (ensureCol 5 sumE s)))
  else if w == 6 then some (addCol (str "quantilesTDigestMergeState(0.5)(percentiles)") s)
  else if w == 8 then some (addCol (str "toFloat64(sum(1))") s)
  else if w == 9 then some (addCol (str "uniqMergeState(uniq_state)") s)
  else none

def selStep (w : Nat) (s : SelSt) : Option SelSt :=
  if s.has.contains w then some s
  else match selKind w s with
    | none => none
    | some s' => some { s' with has := w :: s'.has }

def selLoop : List Nat → SelSt → Option SelSt
  | [], s => some s
  | w :: ws, s =>
    match selStep w s with
    | none => none
    | some s' => selLoop ws s'

/-- the slots up to the first unspecified one (tsWhat.specifiedAt) -/
def specified (whats : List Nat) : List Nat := (whats.take 7).takeWhile (fun w => w != 0)

def hostCols (e : QCfg) (has : List Nat) : List Bytes :=
  (if e.minHost then [str "argMinMergeState(min_host) AS _minHost"] else []) ++
  (if e.maxHost then
     [(if has.contains 3 then str "argMaxMergeState(max_host)" else str "argMaxMergeState(max_count_host)") ++ str " AS _maxHost"]
   else [])

def shardIndex : Int := -3

/-- writeSelectTagsV3: one item for the shard pseudo-tag, two (int, string) for a real tag -/
def tagCols (c : Cfg) : List Int → List Bytes
  | [] => []
  | x :: xs =>
    (if x == shardIndex then [str "_shard_num"] else [selectIntText c x.toNat, colStr x.toNat]) ++ tagCols c xs

/-- every later item of the select list is preceded by a comma -/
def commaItems : List Bytes → Bytes
  | [] => []
  | a :: rest => 44 :: (a ++ commaItems rest)

/-- writeByTagsDir -/
def byTags (c : Cfg) (dir : Bytes) : List Int → Bytes
  | [] => []
  | x :: xs =>
    (if x == shardIndex then str ",_shard_num" ++ dir
     else 44 :: (selAlias c x.toNat ++ dir ++ 44 :: (colStr x.toNat ++ dir))) ++ byTags c dir xs

def dirText (e : QCfg) : Bytes := if e.sort == 2 then str " DESC" else []

def maxSeriesRows : Int := 10000000
def maxTableRows : Int := 100000

/-- everything buildSeriesQuery writes after the where-clause -/
def seriesTail (c : Cfg) (e : QCfg) : Bytes :=
  str " GROUP BY _time" ++ byTags c [] c.groupBy ++
  (if e.sort == 0 then str " LIMIT " ++ itoa maxSeriesRows
   else str " ORDER BY _time" ++ dirText e ++ byTags c (dirText e) c.groupBy ++ str " LIMIT " ++ itoa maxTableRows) ++
  e.settings

/-- buildSeriesQuery; `none` = the builder returns an error (unsupported operation kind) -/
def seriesFrags (c : Cfg) (e : QCfg) (fin fnotin : Filters) : Option (List Frag) :=
  match selLoop (specified e.whats) { has := [], j := 0, cols := [] } with
  | none => none
  | some s =>
    some (.raw (str "SELECT ") :: (timeFrags e ++
      (.raw (str " AS _time" ++ commaItems (s.cols ++ hostCols e s.has ++ tagCols c c.groupBy) ++ str " FROM " ++ tableName e) ::
        (whereFrags c fin fnotin ++ [.raw (seriesTail c e)]))))

/-- b.tag.Index after `if b.tag.Index == StringTopTagIndex { b.tag.Index = StringTopTagIndexV3 }` -/
def tagX (e : QCfg) : Nat := if e.tagIndex == -1 then 47 else e.tagIndex.toNat

/-- tagValuesQuery.hasStr -/
def hasStr (c : Cfg) (e : QCfg) : Bool := !e.tagRaw && !e.tagRaw64 && c.mode != 2

/-- tagValuesQuery.writeByTags -/
def tvByTags (c : Cfg) (e : QCfg) : Bytes :=
  selAlias c (tagX e) ++ (if hasStr c e then 44 :: colStr (tagX e) else [])

/-- buildTagValuesQueryEx (modes 1 and 2) -/
def tagValuesFrags (c : Cfg) (e : QCfg) (fin fnotin : Filters) : List Frag :=
  .raw (str "SELECT " ++ selectIntText c (tagX e) ++ (if hasStr c e then 44 :: colStr (tagX e) else []) ++
        str ",toFloat64(sum(count)) AS _count FROM " ++ tableName e) ::
    (whereFrags c fin fnotin ++
      [.raw (str " GROUP BY " ++ tvByTags c e ++ str " HAVING _count>0 ORDER BY _count DESC," ++ tvByTags c e ++
             str " LIMIT " ++ itoa (e.numResults + 1) ++ e.settings)])

/-- the query text for the builder's mode -/
def queryFrags (c : Cfg) (e : QCfg) (fin fnotin : Filters) : Option (List Frag) :=
  if c.mode == 0 then seriesFrags c e fin fnotin else some (tagValuesFrags c e fin fnotin)

def queryBytes (c : Cfg) (e : QCfg) (fin fnotin : Filters) : Option Bytes :=
  match queryFrags c e fin fnotin with
  | none => none
  | some fs => some (flatten fs)

/-! ### integer expressions of the where-clause and their value (ClickHouse typing of the forms the builder emits) -/

/-- the integer expression forms the builder writes: Int32 columns (tagN, pre_tag, _prekey), Int64 aliases (_tagN),
    toUInt32, toInt64, bitShiftLeft by a constant, bitOr -/
inductive IExpr where
  | col32 (name : Bytes)
  | col64 (name : Bytes)
  | toUInt32 (e : IExpr)
  | toInt64 (e : IExpr)
  | shl (e : IExpr) (n : Nat)
  | bor (a b : IExpr)
deriving DecidableEq, Repr

def IExpr.render : IExpr → Bytes
  | .col32 n => n
  | .col64 n => n
  | .toUInt32 e => str "toUInt32(" ++ e.render ++ str ")"
  | .toInt64 e => str "toInt64(" ++ e.render ++ str ")"
  | .shl e n => str "bitShiftLeft(" ++ e.render ++ str "," ++ natBytes n ++ str ")"
  | .bor a b => str "bitOr(" ++ a.render ++ str "," ++ b.render ++ str ")"

/-- a typed integer value: 32 or 64 bits wide, signed or not; `bits` holds the value extended to 64 bits according to its
    type (sign-extended if signed, zero-extended otherwise), so conversions that preserve the value keep `bits` -/
structure IVal where
  wide : Bool
  signed : Bool
  bits : BitVec 64
deriving DecidableEq, Repr

def ext32 (signed : Bool) (x : BitVec 32) : BitVec 64 := if signed then x.signExtend 64 else x.zeroExtend 64

/-- ClickHouse rules used (trusted, see checks/C26.py): tagN columns are Int32; toUInt32 keeps the low 32 bits; toInt64 preserves
    the value; bitShiftLeft has the type of its first argument and shifts inside its width; bitOr converts both arguments,
    value-preserving, to the common type (64 bits if either is, or if signedness differs; signed if either is) -/
def IExpr.eval (e32 : Bytes → BitVec 32) (e64 : Bytes → BitVec 64) : IExpr → IVal
  | .col32 n => ⟨false, true, ext32 true (e32 n)⟩
  | .col64 n => ⟨true, true, e64 n⟩
  | .toUInt32 e => ⟨false, false, ext32 false ((e.eval e32 e64).bits.setWidth 32)⟩
  | .toInt64 e => ⟨true, true, (e.eval e32 e64).bits⟩
  | .shl e n =>
    let v := e.eval e32 e64
    if v.wide then ⟨true, v.signed, v.bits <<< n⟩ else ⟨false, v.signed, ext32 v.signed ((v.bits.setWidth 32) <<< n)⟩
  | .bor a b =>
    let x := a.eval e32 e64
    let y := b.eval e32 e64
    ⟨x.wide || y.wide || (x.signed != y.signed), x.signed || y.signed, x.bits ||| y.bits⟩

/-- raw64Expr as a tree -/
def raw64AST (hi lo : Bytes) : IExpr :=
  .bor (.shl (.toInt64 (.toUInt32 (.col32 hi))) 32) (.toUInt32 (.col32 lo))

/-- whereIntExpr as a tree (`whereIntAST_render`: it renders to `whereIntExpr`) -/
def whereIntAST (c : Cfg) (x : Nat) : IExpr :=
  if c.mode == 0 && isPreKeyTag c x then .col32 (str "_prekey")
  else if isRaw64 c x then
    (if groupedBy c x then .col64 (str "_tag" ++ natBytes x) else raw64AST (colInt c (x + 1)) (colInt c x))
  else .col32 (colInt c x)

/-! ### from the user's filter string to a TagValue (requestHandler.GetTagFilter, internal/api/promql.go) -/

def isDigit (c : UInt8) : Bool := 48 ≤ c && c ≤ 57

def digitsValue (ds : Bytes) : Nat := ds.foldl (fun a c => a * 10 + (c.toNat - 48)) 0

def inInt64 (v : Int) : Bool := decide (-9223372036854775808 ≤ v) && decide (v ≤ 9223372036854775807)

def parseDigits (neg : Bool) (ds : Bytes) : Option Int :=
  if ds.isEmpty || !ds.all isDigit then none
  else
    let v : Int := if neg then -(Int.ofNat (digitsValue ds)) else Int.ofNat (digitsValue ds)
    if inInt64 v then some v else none

/-- strconv.ParseInt(s, 10, 64): optional sign, at least one decimal digit, value in the int64 range -/
def parseInt64 : Bytes → Option Int
  | [] => none
  | c :: r => if c == 45 then parseDigits true r else if c == 43 then parseDigits false r else parseDigits false (c :: r)

/-- format.ParseCodeTagValue: a space followed by a decimal integer -/
def parseCode : Bytes → Option Int
  | [] => none
  | c :: r => if c == 32 then parseInt64 r else none

/-- what GetTagFilter reads from the metric's tag: whether tagIndex is inside metric.Tags, the tag's Raw(), whether its name is
    the histogram bucket label "le", and its ValueComments as (raw code key, comment) pairs (keys distinct and non-empty) -/
structure TagCtx where
  inTags : Bool
  raw : Bool
  isLe : Bool
  comments : List (Bytes × Bytes)
deriving DecidableEq, Repr

def TagCtx.isRaw (t : TagCtx) : Bool := t.inTags && t.raw

def tvEmpty : TagValue := ⟨true, true, [], 0⟩          -- NewTagValue("", 0)
def tvM (n : Int) : TagValue := ⟨false, true, [], n⟩    -- NewTagValueM(n)
def tvBoth (s : Bytes) (n : Int) : TagValue := ⟨true, true, s, n⟩   -- NewTagValue(s, n)

def commentKeys (t : TagCtx) (s : Bytes) : List Bytes := (t.comments.filter (fun p => p.2 == s)).map (·.1)

/-- the loop over ValueComments: `none` = no comment equals the string, fall through to the mapping lookup;
    `some none` = error (ambiguous comment, or the key is not a raw code) -/
def rawComment (t : TagCtx) (s : Bytes) : Option (Option TagValue) :=
  match commentKeys t s with
  | [] => none
  | [k] => some (match parseCode k with | none => none | some v => some (tvM v))
  | _ :: _ :: _ => some none

def tagValueIDDoesNotExist : Int := -2

/-- GetTagValueID for an ordinary tag: the string->id mapping, or TagValueIDDoesNotExist -/
def mapString (lookup : Bytes → Option Int) (s : Bytes) : TagValue :=
  match lookup s with
  | some id => tvBoth s id
  | none => tvBoth s tagValueIDDoesNotExist

/-- requestHandler.GetTagFilter. `lookup` = mappingsStorage.GetValue; `leEnc` = LexEncode(float32(v)) when
    strconv.ParseFloat(s, 32) succeeds (external float code, passed in). `none` = error. -/
def getTagFilter (lookup : Bytes → Option Int) (leEnc : Option Int) (t : TagCtx) (s : Bytes) : Option TagValue :=
  if s.isEmpty then some tvEmpty
  else if s.head? == some 32 then
    (match parseCode s with
     | none => none
     | some v => if v != 0 then some (tvM v) else some tvEmpty)
  else if t.isRaw then
    (match (if t.isLe then leEnc else none) with
     | some e => some (tvM e)
     | none =>
       match rawComment t s with
       | some r => r
       | none => some (tvBoth s tagValueIDDoesNotExist))   -- getRichTagValueID on a raw tag: comment not found
  else some (mapString lookup s)

end SH.Sql
