/-
  SH.Model.DiskCache — executable model of internal/agent/disk_cache.go (property C09).

  One `Shard` = one `diskCacheShard` (shards are fully independent: `DiskBucketStorage` only dispatches on
  the shard index).  The state has a durable part (`disk`: the `*.seconds` files of the shard directory in
  name order, i.e. creation order, and `clock`, the source of file names) and a volatile part (everything
  else) that `restart` resets exactly as `makeDiscCacheShard` does.

  Modelled branch for branch: `writeSecond` (size / time rotation, new file, header ++ body layout),
  `PutBucket`, `ReadNextTailSecond` (its `for` loop = `readLoop` with fuel), `GetBucket` (time check, short
  read, crc check, erase on failure), `eraseBucket` (magic overwrite, unref), `unrefFileWithRemove`
  (refCount, totalFileSize, os.Remove), `TotalFileSize`, `makeDiscCacheShard`.
  `diskCacheFile` objects are shared by pointer in Go; here they live in `ofiles`, keyed by file name
  (a name is opened at most once per incarnation).

  Parameters / inputs (DESIGN §4): `Cfg.crc` is crc32c (uninterpreted in the theorems, table-free bitwise
  implementation in the driver); the outcome of the clock test `now.Sub(writingFileCreatedTs) >=
  fileRotateInterval` is the `timeRot` input of `put`.  Assumed away (I/O error branches): WriteAt / Seek failures, OpenFile failures other than
  "the tail file is gone" (`hasFile`/`skipMissing`); file names (wall clock with nanoseconds) are strictly increasing.
  `Cfg.tornEraseOk = false` is the code as it is; `true` models a reader that also accepts the magic left
  by an erase torn after 3 bytes as "deleted" (see Props/C09 `torn_erase_*`).
-/
namespace SH.DiskCache

abbrev Bytes := List UInt8

def magicGood : Nat := 0x59b907EC
def magicDeleted : Nat := 0x000007EC
/-- bytes EC 07 00 59: an erase (EC 07 00 00 over EC 07 B9 59) torn after its third byte -/
def magicTornDeleted : Nat := 0x590007EC
def headerSize : Nat := 20
def fileRotateSize : Nat := 52428800
def maxChunkSize : Nat := fileRotateSize - headerSize

structure Cfg where
  crc : Bytes → Nat
  tornEraseOk : Bool := false

/-! ### bytes -/

/-- `k` little-endian bytes of `n` -/
def le : Nat → Nat → Bytes
  | 0, _ => []
  | k + 1, n => UInt8.ofNat (n % 256) :: le k (n / 256)

def unle : Bytes → Nat
  | [] => 0
  | b :: bs => b.toNat + 256 * unle bs

def encHeader (magic time size crc : Nat) : Bytes :=
  le 4 magic ++ (le 4 time ++ (le 8 size ++ le 4 crc))

/-- `fp.WriteAt(d, pos)`: overwrite / append, zero-filling a gap -/
def writeAt (f : Bytes) (pos : Nat) (d : Bytes) : Bytes :=
  let g := f ++ List.replicate (pos - f.length) 0
  g.take pos ++ (d ++ g.drop (pos + d.length))

structure Hdr where
  magic : Nat
  time : Nat
  size : Nat
  crc : Nat
deriving DecidableEq, Repr

/-- the four `binary.LittleEndian` reads on a full header; `none` = `io.ReadFull` came back short -/
def parseHdr (h : Bytes) : Option Hdr :=
  if h.length < headerSize then none
  else some { magic := unle (h.take 4), time := unle ((h.drop 4).take 4),
              size := unle ((h.drop 8).take 8), crc := unle ((h.drop 16).take 4) }

/-- `io.ReadFull(fp, header[:])` at `pos` -/
def readHdr (f : Bytes) (pos : Nat) : Option Hdr := parseHdr ((f.drop pos).take headerSize)

def isDeletedMagic (cfg : Cfg) (m : Nat) : Bool :=
  m == magicDeleted || (cfg.tornEraseOk && m == magicTornDeleted)

/-- `chunkSize < 0 || chunkSize > maxChunkSize || nextPos+headerSize+chunkSize > size` (uint64 → int64: negative = huge) -/
def badChunk (h : Hdr) (size pos : Nat) : Bool :=
  h.size > maxChunkSize || pos + headerSize + h.size > size

inductive Look
  | stop
  | skip (next : Nat)
  | good (h : Hdr) (next : Nat)
deriving DecidableEq, Repr

/-- what one iteration of the `ReadNextTailSecond` loop decides at position `pos` of a file whose cached size is `size` -/
def look (cfg : Cfg) (f : Bytes) (size pos : Nat) : Look :=
  match readHdr f pos with
  | none => .stop
  | some h =>
    if badChunk h size pos then .stop
    else if isDeletedMagic cfg h.magic then .skip (pos + headerSize + h.size)
    else if h.magic != magicGood then .stop
    else .good h (pos + headerSize + h.size)

/-! ### state -/

structure DFile where
  name : Nat
  bytes : Bytes
deriving DecidableEq, Repr

/-- `diskCacheFile` -/
structure OFile where
  name : Nat
  nextPos : Nat
  size : Nat
  refCount : Int
deriving DecidableEq, Repr

/-- `diskCacheBucket` (+ its key in `knownBuckets`) -/
structure Bucket where
  id : Nat
  file : Nat
  pos : Nat
  time : Nat
  size : Nat
  crc : Nat
deriving DecidableEq, Repr

structure WFile where
  name : Nat
  size : Nat
deriving DecidableEq, Repr

structure Shard where
  disk : List DFile := []
  clock : Nat := 0
  ofiles : List OFile := []
  known : List Bucket := []
  knownSize : Int := 0
  lastID : Nat := 0
  reading : Option Nat := none
  waiting : List WFile := []
  waitingSize : Int := 0
  writing : Option Nat := none
  total : Int := 0
deriving DecidableEq, Repr

def findO (os : List OFile) (name : Nat) : Option OFile := os.find? (fun f => f.name == name)
def findB (bs : List Bucket) (id : Nat) : Option Bucket := bs.find? (fun b => b.id == id)
def fileBytes (d : List DFile) (name : Nat) : Bytes :=
  match d.find? (fun f => f.name == name) with
  | some f => f.bytes
  | none => []

def mapO (os : List OFile) (name : Nat) (g : OFile → OFile) : List OFile :=
  os.map (fun f => if f.name == name then g f else f)

def mapDisk (d : List DFile) (name : Nat) (g : Bytes → Bytes) : List DFile :=
  d.map (fun f => if f.name == name then { f with bytes := g f.bytes } else f)

def sumSizes (d : List DFile) : Int := (d.map (fun f => (f.bytes.length : Int))).sum

/-- `unrefFileWithRemove(fp, true)` for the file object named `name` (the caller clears its pointer) -/
def unref (s : Shard) (name : Nat) : Shard :=
  match findO s.ofiles name with
  | none => s
  | some f =>
    if f.refCount - 1 = 0 then
      { s with ofiles := s.ofiles.filter (fun g => g.name != name),
               total := s.total - f.size,
               disk := s.disk.filter (fun g => g.name != name) }
    else
      { s with ofiles := mapO s.ofiles name (fun g => { g with refCount := g.refCount - 1 }) }

/-- `makeDiscCacheShard` on the directory left by `s` -/
def restart (s : Shard) : Shard :=
  { disk := s.disk, clock := s.clock,
    waiting := s.disk.map (fun f => { name := f.name, size := f.bytes.length }),
    waitingSize := sumSizes s.disk, total := sumSizes s.disk }

/-! ### PutBucket / writeSecond -/

def rotates (f : OFile) (len : Nat) (timeRot : Bool) : Bool :=
  f.size + headerSize + len > fileRotateSize || timeRot

/-- first `if` of `writeSecond`: drop the writing file when it is full or old -/
def rotateIfNeeded (s : Shard) (len : Nat) (timeRot : Bool) : Shard :=
  match s.writing with
  | none => s
  | some w =>
    match findO s.ofiles w with
    | none => s
    | some f => if rotates f len timeRot then { unref s w with writing := none } else s

/-- second `if` of `writeSecond`: create a new file named by the clock -/
def ensureWriting (s : Shard) : Shard :=
  match s.writing with
  | some _ => s
  | none =>
    { s with disk := s.disk ++ [{ name := s.clock, bytes := [] }],
             ofiles := { name := s.clock, nextPos := 0, size := 0, refCount := 1 } :: s.ofiles,
             writing := some s.clock, clock := s.clock + 1 }

/-- the two `WriteAt` calls + the bookkeeping of `PutBucket`, on the writing file `w` with object `f` -/
def appendRec (cfg : Cfg) (s : Shard) (w : Nat) (f : OFile) (time : Nat) (data : Bytes) : Shard :=
  let crc := cfg.crc data
  let n := headerSize + data.length
  { s with disk := mapDisk s.disk w (fun b => writeAt b f.size (encHeader magicGood time data.length crc ++ data)),
           ofiles := mapO s.ofiles w (fun g => { g with refCount := g.refCount + 1, size := g.size + n }),
           total := s.total + n,
           knownSize := s.knownSize + n,
           lastID := s.lastID + 1,
           known := { id := s.lastID + 1, file := w, pos := f.size, time := time, size := data.length, crc := crc } :: s.known }

/-- `len(data) > maxChunkSize` -/
def tooBigLen (n : Nat) : Bool := n > maxChunkSize
def tooBig (data : Bytes) : Bool := tooBigLen data.length

/-- `PutBucket`; returns the id, 0 = error -/
def put (cfg : Cfg) (s : Shard) (time : Nat) (data : Bytes) (timeRot : Bool) : Shard × Nat :=
  if tooBig data then (s, 0)
  else
    let s1 := ensureWriting (rotateIfNeeded s data.length timeRot)
    match s1.writing with
    | none => (s1, 0)
    | some w =>
      match findO s1.ofiles w with
      | none => (s1, 0)
      | some f => (appendRec cfg s1 w f time data, s1.lastID + 1)

/-- fault: the body `WriteAt` of `writeSecond` fails after `k` bytes (disk full / file size limit). The header and `k` body bytes
    are on disk behind the last valid record, `size` is NOT advanced, no bucket is registered, and the code drops the writing file
    (`d.unrefFile(&d.writingFile)`), so the next put starts a new file and nothing is ever appended behind that garbage.
    `keepFile = true` is the seeded variant that keeps writing to the same file. -/
def putFail (keepFile : Bool) (cfg : Cfg) (s : Shard) (time : Nat) (data : Bytes) (timeRot : Bool) (k : Nat) : Shard :=
  if tooBig data then s
  else
    let s1 := ensureWriting (rotateIfNeeded s data.length timeRot)
    match s1.writing with
    | none => s1
    | some w =>
      match findO s1.ofiles w with
      | none => s1
      | some f =>
        let s2 := { s1 with disk := mapDisk s1.disk w (fun b =>
                      writeAt b f.size (encHeader magicGood time data.length (cfg.crc data) ++ data.take k)) }
        if keepFile then s2 else { unref s2 w with writing := none }

/-! ### eraseBucket / GetBucket -/

def eraseKnown (s : Shard) (b : Bucket) : Shard :=
  let s1 := { s with disk := mapDisk s.disk b.file (fun f => writeAt f b.pos (le 4 magicDeleted)) }
  let s2 := unref s1 b.file
  { s2 with knownSize := s2.knownSize - (b.size + headerSize), known := s2.known.filter (fun c => c.id != b.id) }

def erase (s : Shard) (id : Nat) : Shard :=
  match findB s.known id with
  | none => s
  | some b => eraseKnown s b

inductive GetRes
  | unknown
  | wrongTime
  | readErr
  | badCrc
  | ok (data : Bytes)
deriving DecidableEq, Repr

/-- `fp.ReadAt(scratch[:size], pos+headerSize)` -/
def readBody (f : Bytes) (b : Bucket) : Bytes := (f.drop (b.pos + headerSize)).take b.size

def get (cfg : Cfg) (s : Shard) (id time : Nat) : Shard × GetRes :=
  match findB s.known id with
  | none => (s, .unknown)
  | some b =>
    if b.time != time then (s, .wrongTime)
    else
      let body := readBody (fileBytes s.disk b.file) b
      if body.length < b.size then (eraseKnown s b, .readErr)
      else if cfg.crc body != b.crc then (eraseKnown s b, .badCrc)
      else (s, .ok body)

/-! ### the caller's scratch pad

  `GetBucket(id, time, scratchPad *[]byte)` reads into the caller's pad: `*scratchPad = (*scratchPad)[0:size]` when the capacity
  suffices, else `make([]byte, size)`, then `ReadAt` overwrites all `size` bytes and that slice is returned. The agent reuses ONE
  pad for all its reads, so the pad holds the bytes of the previous second. `pad` below = the contents of the pad's whole
  capacity. `get` (above) returns the bytes read as a value; `getP` threads the pad exactly as the code does and
  Props/C09 `getP_eq_get` proves that the two agree for EVERY previous pad contents. -/

/-- `(*scratchPad)[0:n]` or `make([]byte, n)` -/
def resliced (pad : Bytes) (n : Nat) : Bytes :=
  if pad.length ≥ n then pad.take n else List.replicate n 0

/-- `ReadAt(buf, …)` that delivers `src`: the first `src.length` bytes of `buf` are overwritten -/
def overwrite (buf src : Bytes) : Bytes := src.take buf.length ++ buf.drop src.length

/-- the pad (whole capacity) after a read of `body` into it -/
def padAfter (pad body : Bytes) : Bytes :=
  if pad.length ≥ body.length then body ++ pad.drop body.length else body

inductive GetVariant
  | asIs          -- the code as it is
  | emptyFastPath -- seeded variant: `if sec.size == 0 { return *scratchPad, nil }` before the pad is resliced
deriving DecidableEq, Repr

/-- `GetBucket` with the caller's scratch pad; returns the new state, the result and the pad afterwards -/
def getP (v : GetVariant) (cfg : Cfg) (s : Shard) (id time : Nat) (pad : Bytes) : Shard × GetRes × Bytes :=
  match findB s.known id with
  | none => (s, .unknown, pad)
  | some b =>
    if b.time != time then (s, .wrongTime, pad)
    else if v == .emptyFastPath && b.size == 0 then (s, .ok pad, pad)
    else
      let body := readBody (fileBytes s.disk b.file) b
      if body.length < b.size then (eraseKnown s b, .readErr, padAfter pad (List.replicate b.size 0))
      else
        let out := overwrite (resliced pad b.size) body
        if cfg.crc out != b.crc then (eraseKnown s b, .badCrc, padAfter pad out)
        else (s, .ok out, padAfter pad out)

/-! ### ReadNextTailSecond -/

inductive ReadRes
  | none
  | got (time id : Nat)
  | fuel
deriving DecidableEq, Repr

/-- `d.unrefFile(&d.readingFileTail)` -/
def closeReading (s : Shard) (name : Nat) : Shard := { unref s name with reading := none }

/-- pop the first waiting file and make it `readingFileTail` -/
def openNext (s : Shard) (w : WFile) (ws : List WFile) : Shard :=
  { s with waiting := ws, waitingSize := s.waitingSize - w.size, reading := some w.name,
           ofiles := { name := w.name, nextPos := 0, size := w.size, refCount := 1 } :: s.ofiles }

/-- `os.OpenFile(tailFile.name, …)` succeeds iff the file is (still) in the directory -/
def hasFile (d : List DFile) (name : Nat) : Bool := d.any (fun f => f.name == name)

/-- the waiting file `w` could not be opened (it vanished after the start-up scan): it is dropped from the waiting list and
    from the accounted sizes (`d.totalFileSize -= tailFile.size`), and the loop goes on with the next one -/
def skipMissing (s : Shard) (w : WFile) (ws : List WFile) : Shard :=
  { s with waiting := ws, waitingSize := s.waitingSize - w.size, total := s.total - w.size }

def setNextPos (s : Shard) (name nx : Nat) : Shard :=
  { s with ofiles := mapO s.ofiles name (fun g => { g with nextPos := nx }) }

/-- a good record found at `f.nextPos` of the reading file -/
def register (s : Shard) (f : OFile) (h : Hdr) (nx : Nat) : Shard :=
  { s with lastID := s.lastID + 1,
           known := { id := s.lastID + 1, file := f.name, pos := f.nextPos, time := h.time, size := h.size, crc := h.crc } :: s.known,
           knownSize := s.knownSize + (h.size + headerSize),
           ofiles := mapO s.ofiles f.name (fun g => { g with refCount := g.refCount + 1, nextPos := nx }) }

def readLoop (cfg : Cfg) : Nat → Shard → Shard × ReadRes
  | 0, s => (s, .fuel)
  | fuel + 1, s =>
    match s.reading with
    | none =>
      match s.waiting with
      | [] => (s, .none)
      | w :: ws =>
        if hasFile s.disk w.name then readLoop cfg fuel (openNext s w ws)
        else readLoop cfg fuel (skipMissing s w ws)
    | some name =>
      match findO s.ofiles name with
      | none => (s, .fuel)
      | some f =>
        if f.nextPos ≥ f.size then readLoop cfg fuel (closeReading s name)
        else
          match look cfg (fileBytes s.disk name) f.size f.nextPos with
          | .stop => readLoop cfg fuel (closeReading s name)
          | .skip nx => readLoop cfg fuel (setNextPos s name nx)
          | .good h nx => (register s f h nx, .got h.time (s.lastID + 1))

/-- enough iterations: every iteration opens a file, closes one, or advances `nextPos` by ≥ 20 -/
def readFuel (s : Shard) : Nat :=
  2 * s.waiting.length + (s.waiting.map (·.size)).sum +
    (match s.reading with
     | none => 0
     | some n => match findO s.ofiles n with
       | none => 0
       | some f => f.size) + 3

def readNext (cfg : Cfg) (s : Shard) : Shard × ReadRes := readLoop cfg (readFuel s) s

/-! ### TotalFileSize -/

def readingRest (s : Shard) : Int :=
  match s.reading with
  | none => 0
  | some n => match findO s.ofiles n with
    | none => 0
    | some f => if f.nextPos < f.size then (f.size : Int) - f.nextPos else 0

def unsent (s : Shard) : Int :=
  let u := s.knownSize + s.waitingSize + readingRest s
  if u > s.total then s.total else u

/-! ### crashes and external damage (not API calls: they act on the directory) -/

/-- the newest file loses its last `n` bytes (a put torn `n` bytes before its end) -/
def tearNewest (s : Shard) (n : Nat) : Shard :=
  match s.disk.getLast? with
  | none => s
  | some f => { s with disk := mapDisk s.disk f.name (fun b => b.take (b.length - n)) }

/-- an erase of bucket `id` torn after `k` bytes (no volatile bookkeeping: the process dies) -/
def tornErase (s : Shard) (id k : Nat) : Shard :=
  match findB s.known id with
  | none => s
  | some b => { s with disk := mapDisk s.disk b.file (fun f => writeAt f b.pos ((le 4 magicDeleted).take k)) }

def nthName (s : Shard) (i : Nat) : Option Nat := (s.disk[i]?).map (·.name)

/-- the `i`-th file of the directory vanishes (removed from outside while the cache runs) -/
def vanish (s : Shard) (i : Nat) : Shard :=
  match nthName s i with
  | none => s
  | some n => { s with disk := s.disk.filter (fun f => f.name != n) }

/-- xor one byte of the `i`-th file -/
def flip (s : Shard) (i off x : Nat) : Shard :=
  match nthName s i with
  | none => s
  | some n => { s with disk := mapDisk s.disk n (fun b => b.set off ((b.getD off 0) ^^^ UInt8.ofNat x)) }

/-- truncate the `i`-th file to `len` bytes -/
def chop (s : Shard) (i len : Nat) : Shard :=
  match nthName s i with
  | none => s
  | some n => { s with disk := mapDisk s.disk n (fun b => b.take len) }

/-! ### histories -/

inductive Op
  | put (time : Nat) (data : Bytes) (timeRot : Bool)
  | get (id time : Nat)
  | erase (id : Nat)
  | readNext
  | restart
deriving DecidableEq, Repr

def step (cfg : Cfg) (s : Shard) : Op → Shard
  | .put t d r => (put cfg s t d r).1
  | .get id t => (get cfg s id t).1
  | .erase id => erase s id
  | .readNext => (readNext cfg s).1
  | .restart => restart s

def run (cfg : Cfg) (s : Shard) (ops : List Op) : Shard := ops.foldl (step cfg) s

/-- call `ReadNextTailSecond` until it reports the end; collect `(time, id)` -/
def drain (cfg : Cfg) : Nat → Shard → Shard × List (Nat × Nat)
  | 0, s => (s, [])
  | n + 1, s =>
    match readNext cfg s with
    | (s', .got t id) =>
      let r := drain cfg n s'
      (r.1, (t, id) :: r.2)
    | (s', _) => (s', [])

end SH.DiskCache
