-- Root of the `SH` library. Modules are built by name (`lake build SH.Props.C10`);
-- nothing needs to be imported here.
import SH.Model.Core
