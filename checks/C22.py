"""C22 — query time axes are aligned, gap-free and bounded (DESIGN §6 C22)."""
HARNESS = "./cmd/verif-c22"
DRIVER = "drv_c22"


def gen(c, binary):
    """lean/SH/Gen/C22.lean: lodLevels, lodLevelsV3Monthly, maxPoints, _1M, LODTables keys as the compiler sees them"""
    rc, out = c.go_run(binary, ["-mode=gen"])
    ok = rc == 0 and "namespace SH.Gen.C22" in out
    c.oblige("regenerate SH/Gen/C22.lean from /repo (lodLevels, lodLevelsV3Monthly, maxPoints, _1M, LODTables keys)", ok, out, kind="tie")
    if ok:
        c.gen("C22", out)
    else:
        c.broken.append("verif-c22 -mode=gen failed:\n" + out[-1500:])
    return ok


def run(c):
    c.rule = ("one case = one argument tuple (start, end, step, now, real *time.Location out of 11 incl. DST, 30/45-minute and "
              "midnight-switching zones; times from 1932 to 2033 incl. a regime around and before 1970-01-01 where t+utcOffset is negative; week start 0-6 through the real calcUTCOffset or an arbitrary utc offset, width, mode, extend, "
              "0-3 metrics with resolution and offset) drawn from range shapes (recent, on/around every LOD switch, long, grid "
              "aligned, around the 7680 point limit, future, inside one bucket, degenerate), plus mathDiv/roundTime/calcUTCOffset "
              "probes; monthly queries carry time shifts N*31d (as the API computes them) and GetLODs is called for every shift, LOD.IndexOf is "
              "probed on grid and off-grid instants of every range; each tuple is run through the real GetTimescale, Timescale.GetLODs and "
              "LOD.IndexOf and through the compiled Lean model; "
              "9 range shapes in total incl. straddling one LOD switch with a short tail; non-trivial = the returned axis has >= 2 levels of detail or the call hit the point limit; distinct by op lines")
    c.assumptions += [
        "Go's time package (zone rules, AddDate, Date) is data, not model: monthly cases hand the model the month boundaries "
        "observed on the real StepForward/startOfLOD; the harness checks those boundaries against CalOK's facts",
        "theorems about months assume CalOK for the calendar (6 order facts listed in SH/Lemmas/Timescale.lean)",
        "range_end_covered and lods_with_offset_translated exclude, by an explicit hypothesis, the monthly step combined with a "
        "non-zero metric time offset (known finding month-offset-coverage; decide witnesses in SH/Props/C22.lean)",
    ]
    binary = c.go_build(HARNESS)
    if binary:
        gen(c, binary)
    c.prove("SH.Props.C22", extra_files=["SH/Model/Timescale.lean", "SH/Lemmas/Timescale.lean", "SH/Lemmas/TimescaleEnd.lean", "SH/Gen/C22.lean"])
    drv = c.driver(DRIVER)
    if binary and drv:
        rc, out = c.go_run(binary, [f"-n={c.n(4000, 60000)}"], timeout=1500)
        c.harness_ok(rc, out, "verif-c22")
        c.correspond(out, drv, timeout=2400)

    def search():
        if not binary:
            return
        for k in range(1, 6):
            rc, out = c.go_run(binary, [f"-n={c.n(20000, 100000)}", f"-seed={c.seed + 1000 * k}"], timeout=1500)
            c.collect(out)
            if c.oracle:
                return
    return search


META = {
    "level": "proof",
    "technique": ("Lean 4 theorems (all argument tuples) over an executable Int model of GetTimescale/GetLODs/roundTime/mathDiv/"
                  "calcUTCOffset with tables regenerated from /repo + differential correspondence with the real functions under real "
                  "time.Locations + direct evaluation of the property's predicates on the real output"),
    "text": ("Kernel-checked for every (start, end, step, now, utc offset, width, mode, extend, metric resolutions/offsets) and every "
             "calendar satisfying CalOK, all seven conjuncts of the property: returned points strictly increase; consecutive points differ "
             "by exactly the step of their level (calendar month for the monthly step); every point is aligned to its level's step after "
             "adding the configured UTC offset (month start for monthly); level steps are table resolutions, strictly finer toward the "
             "present, every level non-empty; len(Time) <= maxPoints + 3 (points_bounded, via additivity of endOfLOD and a loop invariant); "
             "StartX = 1, Time[i] < Start for i < ViewStartX <= Time[ViewStartX]; the last non-extension point lies before End, one more "
             "step of the finest level reaches End, the extend point is exactly that next point and ViewEndX counts the points before it "
             "(range_end_covered, via a whole-walk invariant of the level loop and table facts decided on the regenerated tables); "
             "GetLODs ranges are contiguous, start at Time[0] and enumerate exactly Time, and with a metric offset they are the same "
             "ranges translated by it (lods_with_offset_translated; every metric offset is a multiple of the coarsest step); for EVERY time "
             "shift each returned range lies on the grid of its step (month starts for the monthly step, i.e. the shifted start is "
             "re-aligned), holds exactly the level's Len grid points and LOD.IndexOf is defined for each of them (lods_shifted_on_grid; the "
             "un-realigned variant start := Time[0]-offset is refuted by a decide witness); point "
             "queries use exactly one level and return an aligned [from, to) with from < to inside the request (covering it with extend); mathDiv is floor "
             "division (not T-division); roundTime is the aligned floor for every t : Int, negative included (roundTime_floor; the truncating variant t-(t+off)%step is refuted by a decide witness); calcUTCOffset aligns 7d steps to the configured week start. The model is tied "
             "to the code by running each generated tuple through the real functions and the compiled model and diffing the full "
             "result (levels, indices, first/last point, checksum of all points, ranges)."),
    "note": ("Explicit exclusion (hypothesis hm, with decide witnesses): monthly step combined with a non-zero metric time offset - "
             "known finding month-offset-coverage, no small fix. "
             "Trusted: Lean kernel; the model<->code correspondence on generated tuples (quick 4000, thorough 60000); Go's time "
             "package as data (month boundaries are observed, CalOK is assumed for the theorems and checked on the observed "
             "boundaries). Defect found by this check and fixed in /repo (4a206645, fixes/C22-month-start.diff): in zones where 00:00 "
             "of the 1st does not exist (DST switched on at midnight: America/Asuncion 2000-10-01 and 2017-10-01, Europe/Moscow "
             "1981-04-01, ...) StepForward/startOfLOD left the month grid; the old behaviour is kept as a decide witness (calGapOld). "
             "Second defect of the same kind, proposed fix fixes/C22-indexof-month.diff (not yet in /repo): LOD.IndexOf still steps months with "
             "AddDate(0,1,0) and answers 'out of range' for every month start after such a gap month (sig lod-indexof-undefined); until it "
             "is committed bin/check C22 reports that VIOLATION on /repo and is green with VERIF_REPO pointing at the patched tree. "
             "Oracle signatures for shifted ranges: lod-range-misaligned, lod-points-mismatch, lod-indexof-undefined (distinct from the "
             "known finding month-offset-coverage, which is about the axis length under a metric offset)."),
    "design_ref": "DESIGN.md §6 C22",
}
