"""C16 — replaying the metadata binlog reproduces the primary's state (DESIGN §6 C16)."""
HARNESS = "./cmd/verif-c16"
DRIVER = "drv_c16"
REPLAY_ARGS = []


def run(c):
    c.rule = ("random histories of 8-40 write operations on a PRIMARY (the real metadata.DBV2 on real SQLite, fsbinlog on tmpfs, scripted clock incl. "
              "backwards, near and beyond 2^32; random flood budgets 1..8|1000, step 1|7|60|3600 s): SaveEntity create / edit / RENAME (fresh name, used "
              "name, name another entity gave up, other namespace) / stale version / delete+undelete / builtin negative ids / duplicate create / "
              "type-mismatched request, GetOrCreateMapping, PutMapping, batched mapping deletion, ResetFlood (absent from half of the histories), "
              "bootstrap write; about three snapshot points per history (commit + the engine's Backup), one history in eight is cut after EVERY "
              "operation. Each write op prints the binlog events it appended (captured between the engine and fsbinlog, decoded with the repo's TL "
              "types). At the end the primary is dumped and closed, then a REPLICA is opened by metadata.OpenDB on a copy of the binlog with (a) a "
              "fresh database file and (b) a copy of every snapshot, and dumped after its replay. Non-trivial = a history with a snapshot strictly inside "
              "the binlog (events before and after it) whose replayed suffix contains a successful rename or a mapping deletion that removed "
              "something; distinct by op-sequence hash")
    c.assumptions += [
        "one model step = one eng.Do callback = one binlog payload (the engine's serialisation and its commit protocol are C17's subject); a replica "
        "applies whole events in binlog order and an apply error aborts OpenDB (internal/sqlite/binlog_engine.go apply)",
        "SQLite is trusted: PRIMARY KEY / UNIQUE enforcement (modelled as explicit conflict checks), AUTOINCREMENT high-water marks, INSERT OR REPLACE, "
        "VACUUM INTO as a faithful copy of the committed database",
        "observable state = everything durable except the upper 32 bits of metrics_v5.updated_at (primary stores int64 seconds, the event carries "
        "uint32, every reader casts to uint32) and the process-local DBV2.lastMappingIDToInsert; the oracle reads journal, history, mappings and "
        "bootstrap through the public getters (JournalEvents, GetHistoryShort, GetEntityVersioned, GetNewMappings, GetMappingByID/ByValue, "
        "GetBootstrap) and the flood limits by SELECT",
        "the bootstrap write has no caller in the pinned tree except replay; the harness calls applyPutBootstrap inside eng.Do, as the function is written to be used",
        "strings are opaque tokens; deprecated EditMetricEvent/CreateMetricEvent (never emitted by this tree) are not generated",
    ]
    c.prove("SH.Props.C16", extra_files=["SH/Model/Replay.lean", "SH/Model/Meta.lean"])
    drv = c.driver(DRIVER)
    binary = c.go_build(HARNESS)
    if binary and drv:
        # corpus first: minimal histories of the findings, replayed through -mode=script
        import glob, os
        for f in sorted(glob.glob(os.path.join(os.path.dirname(os.path.abspath(__file__)), "..", "corpus", "C16", "*.ops"))):
            rc, out = c.go_run(binary, ["-mode=script", "-arg=" + os.path.abspath(f)])
            c.harness_ok(rc, out, "verif-c16 -mode=script " + os.path.basename(f))
            c.correspond(out, drv, label="script:" + os.path.abspath(f))
        # several harness processes in parallel (each a different seed derived from VERIF_SEED), one correspondence each
        from concurrent.futures import ThreadPoolExecutor
        chunks, per = c.n((4, 120), (8, 1200))
        def one(k):
            return c.go_run(binary, [f"-n={per}", f"-seed={c.seed * 1000 + k}"], timeout=2400)
        with ThreadPoolExecutor(chunks) as ex:
            outs = list(ex.map(one, range(chunks)))
        for rc, out in outs:
            c.harness_ok(rc, out, "verif-c16")
            c.correspond(out, drv)

    def search():
        if not binary:
            return
        for k in range(1, 6):
            rc, out = c.go_run(binary, [f"-n={c.n(400, 2000)}", f"-seed={c.seed + 1000 * k}"], timeout=2400)
            c.collect(out)
            if unexplained():
                return

    def unexplained():
        known = {k[0] for k in c.known_findings()}
        return [o for o in c.oracle if o["sig"] not in known]

    # bin/check widens the search only when NO oracle line exists; the known finding fires in most runs, so do it here when the
    # tie broke (proof, build or correspondence) and the only oracle lines are the known ones
    if (c.disagreements or c.broken or [o for o in c.obligations if not o["ok"]]) and not unexplained():
        search()
    return search


def replay(c):
    import json, sys, vf
    rp = json.load(open(c.replay))
    label = rp.get("label") or ""
    if label.startswith("script:"):       # a corpus history: re-run that script on the current tree and on the model
        binary = c.go_build(HARNESS); drv = c.driver(DRIVER)
        rc, out = c.go_run(binary, ["-mode=script", "-arg=" + label[len("script:"):]])
        print("---- implementation (current tree)"); print(out)
        cases, _, _ = vf.parse_stream(out)
        feed = "\n".join(l for cs in cases for l in [cs.header] + cs.ops) + "\n"
        print("---- model"); print(vf.sh([drv], stdin=feed)[1])
        return 1 if "\n! " in "\n" + out else 0
    return vf.generic_replay(c, sys.modules[__name__])


META = {
    "level": "proof",
    "technique": ("Lean 4 simulation proof (induction over all histories and all snapshot points) about an executable model of binlog emission and "
                  "replay + op-by-op differential correspondence with the real DBV2 (emitted events, primary tables, replica tables after a real "
                  "OpenDB replay from a fresh file and from real Backup snapshots) + direct primary/replica oracle through the public getters"),
    "text": ("Kernel-checked: for every history of SaveEntity (create, edit, rename, delete, builtin ids, type-mismatched requests) / GetOrCreateMapping / "
             "PutMapping / mapping deletion / bootstrap operations and every snapshot point n, a copy of the primary's database taken after n operations "
             "that replays the binlog from its position — and a fresh database replaying all of it — never hits an apply error and ends with exactly "
             "the primary's observable state (entities, history, mappings, both AUTOINCREMENT marks, flood limits, bootstrap); more generally any "
             "replica that looks like the primary did at some point catches up exactly (replay_run). Each apply* respects the observable projection "
             "(view_applyEvent), every reader is a function of it (journal_of_view, readers_of_view), a rejected SaveEntity appends nothing. "
             "PARTIAL: the theorems require that no ResetFlood follows the snapshot point; the full statement is refuted by a decide witness."),
    "note": ("Trusted: Lean kernel, SQLite, engine serialisation (C17), the model<->code correspondence on generated histories (quick 480, thorough 9600 "
             "histories + corpus; every history replays 1 + #snapshots real replicas). Imports the invariants of SH.Props.C15 / C19 (unique ids and "
             "versions, history below the maximal version, ids below the AUTOINCREMENT marks). TWO GENUINE DEFECTS on the pinned tree. (1) FIXED by "
             "fixes/C16-replay-rename.diff: applyEditEntityEvent matched `AND name = $name` with the NEW name and never wrote the name, so every replayed "
             "rename matched no row (entity keeps old name/version/data, all its later edits are lost too; oracle journal-diverged / history-diverged) and "
             "a later entity taking the freed name made the replayed create fail on UNIQUE(namespace_id,type,name): OpenDB fails (oracle replay-failed); "
             "model = fixed code (RVariant.fixed), the pinned behaviour is RVariant.old with decide examples old_replay_loses_rename / old_replay_can_fail, "
             "corpus/C16/rename-*.ops. (2) KNOWN FINDING reset-flood-not-replayed: ResetFlood rewrites or deletes a flood_limits row and appends no "
             "binlog event (it returns the cache untouched), so a replica keeps the old budget; a fix needs a new TL event type + regenerated code, "
             "not a small patch; the model reproduces it (emit = []), theorem reset_flood_is_not_replayed, corpus/C16/reset-flood.ops. Also observed "
             "(not alarmed): after replay metrics_v5.updated_at holds the uint32 truncation of the primary's int64 — invisible to every reader."),
    "design_ref": "DESIGN.md §6 C16",
}
