"""C14 — every TL type round-trips through its encodings; bucket frames round-trip, bad frames are rejected (DESIGN §6 C14)."""
import os
import sys

HARNESS = "./cmd/verif-c14"
DRIVER = "drv_c14"

VERIF = os.path.dirname(os.path.dirname(os.path.abspath(__file__)))
sys.path.insert(0, os.path.join(VERIF, "tools"))

# schema files per generated package; barsic has no .tl in the repository: tools/c14_barsic.tl is a hand transcription of
# internal/vkgo/vktl/gen (checked against the generated Go by the correspondence like everything else)
SCHEMA_FILES = {
    "data_model": ["internal/data_model/common.tl", "internal/data_model/engine.tl", "internal/data_model/metadata.tl",
                   "internal/data_model/schema.tl", "internal/data_model/public.tl", "internal/data_model/api.tl"],
    "fsbinlog": ["internal/vkgo/binlog/fsbinlog/schema.tl"],
    "sqlite": ["internal/vkgo/sqlitev2/checkpoint/metainfo.tl"],
}
LOCAL_SCHEMAS = {"barsic": [os.path.join(VERIF, "tools", "c14_barsic.tl")]}


def gen(c, binary):
    """regenerate lean/SH/Gen/C14.lean: .tl files of /repo -> descriptors; tags and item list from the compiled factories"""
    import importlib
    import vf
    import tl2lean
    importlib.reload(tl2lean)
    rc, out = c.go_run(binary, ["-mode=gen"])
    items, maxb = [], 0
    for line in out.split("\n"):
        f = line.split()
        if len(f) >= 4 and f[0] == "item":
            items.append((f[1], f[2], int(f[3], 16), "tl2=true" in f))
        if len(f) == 3 and f[0] == "const" and f[1] == "MaxUncompressedBucketSize":
            maxb = int(f[2])
    schemas = {}
    for name, files in SCHEMA_FILES.items():
        try:
            schemas[name] = [open(os.path.join(vf.REPO, f)).read() for f in files]
        except OSError as ex:
            c.broken.append(f"schema file missing: {ex}")
    for name, files in LOCAL_SCHEMAS.items():
        if all(os.path.exists(f) for f in files):
            schemas[name] = [open(f).read() for f in files]
    try:
        lean, support, cov = tl2lean.generate(schemas, items, maxb)
    except Exception as ex:  # a schema the translator cannot even parse: the tie is gone
        c.oblige("tl2lean translates the .tl schemas of /repo", False, repr(ex), kind="gen")
        c.broken.append(f"tl2lean failed: {ex!r}")
        return None
    c.gen("C14", lean)
    sup = os.path.join(vf.BUILD, "c14-support.txt")
    vf.write_if_changed(sup, support)
    missing = {k: v for k, v in cov["unsupported"].items() if k.split("/")[0] in SCHEMA_FILES and "(result)" not in k}
    c.oblige(f"every item of the generated factories with a .tl schema in /repo has a Lean descriptor ({cov['translated']} of {cov['items']} items)",
             rc == 0 and maxb > 0 and len(items) > 100 and not missing, str(missing), kind="gen")
    if missing:
        c.broken.append(f"schema constructs the translator does not support: {missing}")
    c.extra["schema_coverage"] = {"factory_items": cov["items"], "items_with_descriptor": cov["translated"],
                                  "function_results_with_descriptor": cov["results"], "not_translated": cov["unsupported"],
                                  "items_with_generated_tl2": cov["tl2_items"], "tl2_items_outside_model_fragment": cov["tl2_float_fields"]}
    return sup


def run(c):
    c.rule = ("case i drives factory item (i mod #items) of the four generated packages (every type is visited): FillRandom (or a "
              "reflection filler for the tl2gen-1.4 packages) plus boundary enrichment (string lengths 0..5, 250..258, 300, 1021; quotes, "
              "NUL, multi-byte UTF-8 or raw bytes; extreme ints; -0, Inf, NaN payloads); ops = decode of the bare and boxed Go bytes with "
              "trailing bytes (string variant: dec, []byte variant: decb), two truncations, three one-byte mutations, the function result, for "
              "types with generated TL2 the Go WriteTL2 bytes decoded and re-encoded by the TL2 model (tl2 / tl2b), TL1-vs-TL2 same-value "
              "(tl2x; the Go re-encoding goes through one TL2WriteContext shared with 1-3 values of other TL2 types written in random order, "
              "whose shared-context bytes must equal their fresh-context bytes), a TL2 truncation and two TL2 mutants, and the decode of an empty/mixed value B by "
              "a string- and a []byte-variant object that has just read a fully populated value A (reused destination); every 16th case "
              "is a frame case (every frame returned in the case — 3-6 incompressible/compressible payloads up front, the main payload, the weak "
              "batch — is kept and deframed+decompressed again after all later CompressAndFrame calls; payload kinds: empty, incompressible, compressible, equal-size, boundary, damaged frames, plus a batch of 14 weakly "
              "compressible payloads each: random bodies of 64 B..64 KiB, dense at 3-5 KiB, with one 4-32 byte repeat a few bytes before "
              "the end or several scattered repeats), every other 16th a TL2 case "
              "(size codec at every form boundary and random sizes, arbitrary headers, strings of boundary lengths, and a sweep of one "
              "planted string through a generated TL2 type so that every enclosing object/vector/dictionary body takes each size "
              "around 254 and 65790 exactly). Non-trivial = encoding longer than 8 bytes, or a mutant the "
              "reader accepted, or a frame that was really compressed; distinct by op-sequence hash")
    c.assumptions += ["lz4 (github.com/pierrec/lz4) is an abstract inverse pair in the theorems; in the correspondence its observed results are inputs of the model",
                      "JSON is the one clause that is not a theorem: Go-side round-trip oracle only (its content is number and string TEXT formatting — strconv float/int printing and parsing, string escaping, base64 — for which there is no model here)",
                      "TL2 is modelled (SH.Model.TL2) for the fragment the generator uses in /repo; float/double as direct fields, Bool as vector element or conditional field, unions with fields, tuples are outside it (schema_tl2_supported re-checks on every run that no generated TL2 type needs them)",
                      "bytes-vs-string variants: the model has one descriptor and one encoding per type, so 'identical encodings' is definitional in Lean and is discharged as a correspondence obligation per type (ops decb / tl2b: the []byte variant's observation must equal the model's single answer, like the string variant's)",
                      "reading into a used destination: the model's decode is a function of the bytes, so independence of the destination's previous content is an obligation on the correspondence and the Go oracle, not a theorem",
                      "basictl.CheckLengthSanity is not modelled (only changes which error is returned)",
                      "values are compared through their canonical TL1 bytes (sound by theorem tl1_injective)",
                      "CompressAndFrame's result and WriteTL2's result are VALUES in the model (functions of the payload / of the value): that a returned frame does not change under later calls, and that a shared TL2WriteContext does not influence the bytes, are obligations on the correspondence and the Go oracle (kept frames re-checked; shared-context bytes compared with fresh-context bytes and with the model's encoding), not theorems",
                      "10 MiB payloads are checked by the Go oracle only (too long for the list-based model driver)"]
    binary = c.go_build(HARNESS)
    sup = gen(c, binary) if binary else None
    c.prove("SH.Props.C14", extra_files=["SH/Model/TL.lean", "SH/Model/TL2.lean", "SH/Lemmas/TL.lean", "SH/Lemmas/TL2.lean"])
    drv = c.driver(DRIVER)
    if binary and drv and sup:
        rc, out = c.go_run(binary, [f"-n={c.n(1600, 40000)}", f"-arg={sup}"], timeout=1500)
        c.harness_ok(rc, out, "verif-c14")
        c.correspond(out, drv)

    def search():
        if not binary:
            return
        for k in range(1, 6):
            rc, out = c.go_run(binary, [f"-n={c.n(4000, 20000)}", f"-seed={c.seed + 1000 * k}"] + ([f"-arg={sup}"] if sup else []), timeout=1500)
            c.collect(out, label="")
            if c.oracle:
                return
    return search


REPLAY_ARGS = ["-arg=" + os.path.join(VERIF, ".build", "c14-support.txt")]

META = {
    "level": "proof",
    "technique": ("Lean 4: one generic TL1 codec and one generic TL2 codec over the same schema descriptors, each with a single kernel-checked round-trip theorem (mutual recursor of the "
                  "descriptor types), instantiated with descriptors regenerated from /repo's .tl files; frame theorems with lz4 abstract; "
                  "differential correspondence of the codec against the generated Go readers/writers for every factory item; Go-side "
                  "round-trip oracle for TL1 bare/boxed, TL2, JSON, bytes-vs-string variants, function results and frames"),
    "text": ("tl1_roundtrip: for every descriptor, nat-argument environment, well-typed value and trailing bytes, ReadTL1(WriteTL1 v ++ rest) = (v, rest); "
             "corollaries boxed round trip, injectivity, prefix-freeness; instantiated for every type of the current schema (tags re-checked "
             "distinct by evaluation). frame_roundtrip for every payload within MaxUncompressedBucketSize and any inverse lz4 pair; undersized / "
             "oversized frames rejected, output length always equals the announced size. tl2_size_roundtrip / tl2_string_roundtrip: the TL2 size "
             "codec (three forms) and TL2 strings round-trip for every size up to MaxInt, tied to basictl2.go at every form boundary. "
             "tl2_roundtrip: for every descriptor of the modelled TL2 fragment and every well-typed value, ReadTL2(WriteTL2 v ++ rest) = (v, rest) "
             "(size-prefixed objects, presence-bit blocks with trimming, omitted defaults, conditional fields, enums, vectors, dictionaries); "
             "schema_tl2_supported + schema_tl2_roundtrip instantiate it for all 55 types with generated TL2 code. The TL2 codec is tied to the "
             "generated Go like the TL1 one (decode + re-encode of Go's WriteTL2 bytes, truncations, mutants, and TL1/TL2 bytes denote the same model value). The Lean codec is tied to the generated Go by decoding "
             "and re-encoding the Go bytes of every factory item (valid, truncated and mutated) and comparing accept/reject, consumed length and bytes."),
    "note": ("Partial: JSON is the one remaining non-theorem clause (Go-side oracle for every type: write, read back, compare canonical TL1 bytes); its "
             "substance is decimal/float text formatting and string escaping, not layout. TL2 top-level enum constructors are factory singletons that "
             "serialise to nothing in Go (they occur in the model only inside their unions). The "
             "bytes/string-variant clause is definitional in the model (one descriptor) and checked per type by the correspondence (decb/tl2b ops) and the Go oracle. The model omits "
             "CheckLengthSanity. Trusted: Lean kernel, tools/tl2lean.py (its output is what the correspondence tests against the Go code), "
             "the hand transcription tools/c14_barsic.tl for the barsic package (no .tl in the repo), lz4 library."),
    "design_ref": "DESIGN.md §6 C14",
}
