"""C18 — fsbinlog replays exactly what was appended, across rotation and damage (DESIGN §6 C18)."""
HARNESS = "./cmd/verif-c18"
DRIVER = "drv_c18"


def run(c):
    c.rule = ("one case = one history on a gofs memory fs: 1-3 writer sessions (ReadAll from 0 or from a commit with/without its "
              "snapshot meta, WriteLoop, batches of 0-5 Append/AppendASAP incl. wrong-offset and after-stop appends, one writer "
              "loop iteration per batch; shutdown with an empty buffer or, every other session, through a shutdown window: appends "
              "still buffered at RequestShutdown, an append after RequestShutdown before the writer ran, and an append made from "
              "inside the writer's Engine.Commit call that follows the shutdown request) with MaxChunkSize 60..1100 (rotation every few events) or, every 12th case "
              "(10th in thorough), 20000..2^20 with 1-70 KB payloads (crc records every 64 KiB, read buffer growth); then "
              "read-only replays of the final files: from 0, from every commit with its meta / without / with an older meta, "
              "from the deepest commit lying more than 64 KiB inside its chunk (with and without meta), from up to two commits with the meta "
              "of an OLDER commit of the same chunk, from event boundaries, malformed (wrong engine offset, meta ahead of start, corrupted meta, unaligned start), "
              "truncations of the last file (random, around event boundaries, inside the file header, last bytes), of an inner "
              "file, a deleted last file, single bit flips (biased to bytes in front of a crc record); thorough: half of the "
              "small cases enumerate EVERY truncation offset and EVERY single bit flip of the last two files. "
              "non-trivial = the history contains a rotation, a crc record, a resume from a commit, a truncation, a bit flip "
              "covered by a later crc record or the exhaustive damage slice; distinct by op-sequence hash")
    c.assumptions += [
        "crc32 is a parameter of the model (theorems use only upd c (a++b) = upd (upd c a) b, proved for the table-driven "
        "IEEE crc the driver links); 'corruption is detected' is proved in reduction form (a crc record is passed iff the "
        "running checksum equals the stored one); that CRC-32 detects every single-bit flip is checked by the oracle only",
        "md5 file hashes (CurLogHash of the first file, calcNextLogHash) and time.Now() are inputs: the harness reads them "
        "from the bytes the real code produced; the reader never looks at the hashes",
        "the reader's 64 KiB buffer is idealised (one loop iteration sees the whole rest of the file); justified for engines "
        "whose Apply answers NotEnoughData on a strict prefix of an event (the stub does); buffer growth past 64 KiB is "
        "exercised by 20-70 KB payloads in the big cases; the malformed reads with a wrong engine offset are not "
        "generated for those cases (engine ahead of the reader + event larger than the buffer re-parses mid-event)",
        "events use the stub engine's framing magic(4) len(4) body pad-to-4 with a magic that is not a service magic; one "
        "event per Apply; the engine tracks its own offset (Skip/Apply) as the repo's TestEngineImpl does",
        "replica mode (fsnotify loop), pid-change mode, compressed chunks (kfs zip), lev_set_persistent_config_value and "
        "levUpgradeToGms records are not modelled (the model answers `unmodelled`; the generator never produces them)",
        "of hashBuff1/hashBuff2 only the length of hashBuff2 is modelled (it decides whether the first chunk's Rotate lev "
        "slices out of range); the md5 values themselves are inputs",
        "file names (generateNextBinlogFilename) are not modelled; files are identified by the position in their header; two "
        "files with equal positions are never generated (sort.Slice tie order unspecified)",
        "the writer goroutine is driven deterministically by parking it inside Engine.StartReindex; whether the 500 ms flush "
        "timer fired in a step is observed and passed to the model as input; fsync is observed through gofs dirty-page "
        "tracking (CorruptDirtyPages inside Engine.Commit)",
    ]
    c.prove("SH.Props.C18", extra_files=["SH/Model/Binlog.lean", "SH/Lemmas/Binlog.lean", "SH/Lemmas/BinlogRot.lean",
                                        "SH/Lemmas/BinlogSim.lean", "SH/Lemmas/BinlogCut.lean", "SH/Lemmas/BinlogWriter.lean",
                                        "SH/Lemmas/BinlogAll.lean", "SH/Lemmas/BinlogWB.lean", "SH/Lemmas/BinlogMulti.lean"])
    drv = c.driver(DRIVER)
    binary = c.go_build(HARNESS)
    if binary and drv:
        rc, out = c.go_run(binary, [f"-n={c.n(200, 400)}"], timeout=2400)
        c.harness_ok(rc, out, "verif-c18")
        c.correspond(out, drv, timeout=2400)
    if c.tier == "thorough":
        c.extra["exhaustive"] = True
        c.extra["exhaustive_slice"] = "every truncation offset and every single-bit flip of the last two files of the cases counted in stats['case.exhaustive']"

    def search():
        if not binary:
            return
        for k in range(1, 6):
            rc, out = c.go_run(binary, [f"-n={c.n(400, 400)}", f"-seed={c.seed + 1000 * k}"], timeout=2400)
            c.collect(out, label="")
            if [o for o in c.oracle if o["sig"] != "truncated-file-header"]:
                return
    return search


META = {
    "level": "proof",
    "technique": ("Lean 4 theorems over an executable byte-level model of putLevToBuffer / writer loop / reader "
                  "(induction over event lists, truncation points and writer schedules) + differential correspondence with the "
                  "real fsbinlog on a memory file system + direct replay/commit/damage oracle"),
    "text": ("Kernel-checked, for all inputs: (readAll_resume_sessions, via readAll_reduce and sessions_good) after ANY history of "
             "writer sessions - fresh binlog, batches of appends with any number of rotations, restarts with the writer state "
             "rebuilt by wsInit - readAllFromPosition called at the offset of any commit, with that commit's snapshot meta or "
             "WITHOUT meta: directory scan and sort, getBinlogIndexByPosition, seek (checksum verified against the meta or "
             "recomputed), replay of the remaining chunks = ok, exactly the later events, in order, at the offsets Append "
             "returned; (restart_takes_replay_result) the writer a restart builds with wsInit from the RESULT of that replay satisfies the history invariant again; (readAll_resume_older_meta) the same replay with the meta of an OLDER commit of the same chunk, the seeded seek variant seekBad refuted by a decide witness; (readAll_damaged_prefix_or_collision) crc_record_checked lifted through readAll: with ARBITRARY bytes behind a written prefix in the last chunk, readAll delivers the prefix and any crc record reached in the damaged part makes it fail with a checksum error unless the stored value equals the checksum of the damaged bytes (collision); (readAll_from_start) the same from offset 0, LevStart and tag skipped; (readAll_truncated, "
             "truncate_tail_files, truncate_prefix) a chunk cut at ANY point behind its ROTATE_FROM header - inside an event, a "
             "crc record or its ROTATE_TO - with all later files removed, read through the whole readAll path: no error, exactly "
             "the complete events, a prefix, never a partial event; the single excluded shape, a cut inside a 36-byte ROTATE_FROM "
             "header, is the known finding (decide witnesses); (iter_files_layout, apNext_buff) one writer-loop iteration leaves "
             "on disk byte for byte the chunks of that layout; (crc_record_checked) a crc record is rejected iff the stored "
             "value differs from upd crc0 (bytes read); (commit_monotone, commit_le_fsynced, commit_covered_per_file) for every "
             "schedule commit offsets never decrease and every committed offset is covered, file by file - closed chunks with "
             "their ROTATE_TO included - by an fsync of that file (the seeded rotate-syncs-the-wrong-fd variant violates it, "
             "decide witness); (append_after_stop_refused_or_durable) no acknowledged append is lost around shutdown; "
             "(putLev_no_panic) a restarted writer never takes the out-of-range hashBuff2 slice. The model is tied to the code by "
             "replaying generated histories (sessions, rotations, crc records, resumes incl. positions deeper than 64 KiB into a "
             "chunk, shutdown windows, truncations, bit flips) on the real package and on the compiled model and diffing every "
             "observation; the direct oracle checks replay/resume equality, acknowledged appends present after shutdown, commit "
             "<= fsynced bytes at every commit incl. those right after a rotation (gofs dirty pages), truncation and bit-flip "
             "outcomes on the real code."),
    "note": ("Trusted: Lean kernel, the correspondence on generated histories (quick 200, thorough 400 histories incl. ~160 with "
             "every truncation offset and every single-bit flip of the last two chunks), gofs memory fs as the file system, "
             "crc32/md5 as parameters. Remaining partial point: readAll_damaged_prefix_or_collision carries the side condition that the loop's step budget reaches the crc record (n + 1 <= fuel; that rest/2+4 always suffices is not proved) and is stated for damage in the last chunk. The md5 chain is NOT verified by the Go reader (decide witness). Known "
             "finding truncated-file-header: a last chunk cut inside its 36-byte ROTATE_FROM header (crash inside rotate()) makes "
             "the whole binlog unreadable (scan error; index panic for 1-3 bytes); reproduced by the model (decide witnesses) and "
             "the single exclusion of the truncation theorems. Defect found and fixed in round 1 (sig=append-panic, committed in "
             "/repo); the model describes the fixed code."),
    "design_ref": "DESIGN.md §6 C18",
}
