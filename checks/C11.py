"""C11 — tag values are normalized and raw tag values parsed exactly (DESIGN §6 C11)."""
HARNESS = "./cmd/verif-c11"
DRIVER = "drv_c11"


def gen(c, binary):
    """lean/SH/Gen/C11.lean: unicode.IsSpace / unicode.IsPrint of the toolchain in use + MaxStringLen as compiled"""
    rc, out = c.go_run(binary, ["-mode=gen"])
    ok = rc == 0 and "namespace SH.Gen.C11" in out
    c.oblige("regenerate lean/SH/Gen/C11.lean from the Go toolchain / working tree (verif-c11 -mode=gen)", ok, out, kind="tie")
    if ok:
        c.gen("C11", out)
    else:
        c.broken.append("verif-c11 -mode=gen failed:\n" + out[-2000:])
    return ok


def run(c):
    c.rule = ("even cases: 24 byte strings each (clean ASCII / clean UTF-8 / messy unicode and ASCII spacing and non-printables / "
              "malformed UTF-8: truncated, overlong, surrogates, >U+10FFFF / 118-142 bytes around the 128 limit / random bytes / "
              "tiny and all-space / one damaged byte; one input in 14 is length-adversarial: [content] run [content] [run "
              "[content]] where a run is whitespace (ASCII spaces / mixed ASCII / unicode / all mixed), malformed UTF-8, valid "
              "multi-byte runes, non-printables or plain text and its length is drawn log-uniformly from 1..8192 bytes - "
              "thorough: one run in 16 from 1..65536 - because no input length is special to the property), run through "
              "AppendValidStringValue (empty and non-empty dst), "
              "ForceValidStringValueBytes, ForceValidStringValue, ValidStringValue(Bytes); odd cases: 40 strings each for both raw "
              "parsers (numbers within +-2 of every boundary, explicit plus, leading zeros, -0, malformed, random; one in 40 "
              "is a spelling of log-uniform length up to 8192 / 65536 bytes: a run of zeros in front of a number or after "
              "its sign, zeros only, long digit strings, long spellings with one foreign byte). Inputs with whitespace "
              "runs are also forced with every run replaced by one space, spellings with a zero run are also parsed "
              "without it: the answers must coincide (oracles force-whitespace-run-length, raw32/raw64-leading-zeros). "
              "The array-level in-place model re-reads the shared array at every step (quadratic), so the `ip` op is "
              "replayed on it for inputs up to 1 KB and one in 8 of those up to 4 KB; the direct oracle judges the real "
              "in-place call at every length. "
              "non-trivial = a case containing an input that takes the slow path or is within 2 bytes of the length limit "
              "(norm), or a number within +-2 of a range boundary (raw); distinct by op-sequence hash")
    c.assumptions += [
        "unicode.IsSpace / unicode.IsPrint are tables: the theorems hold for ANY tables with the four sanity facts of "
        "Tables.Sane, which are re-proved (decide) for the tables dumped from the toolchain on this run",
        "utf8.DecodeRune / EncodeRune and strconv.ParseInt / ParseUint (base 10) are re-modelled in Lean; the correspondence "
        "exercises them only through the format functions",
        "an explicit '+' sign is a raw value for the 32-bit parser only (ParseInt vs ParseUint); the property text does not "
        "say whether '+5' is a decimal integer, so the oracle does not judge the 64-bit parser on such inputs",
    ]
    binary = c.go_build(HARNESS)
    if binary:
        gen(c, binary)
    c.prove("SH.Props.C11", extra_files=["SH/Model/Norm.lean", "SH/Model/RawTag.lean", "SH/Gen/C11.lean",
                                          "SH/Lemmas/Utf8C11.lean", "SH/Lemmas/NormC11.lean",
                                          "SH/Lemmas/NormSpecC11.lean", "SH/Lemmas/NormInPlaceC11.lean",
                                          "SH/Lemmas/NormLenC11.lean"])
    drv = c.driver(DRIVER)
    if binary and drv:
        rc, out = c.go_run(binary, [f"-n={c.n(2500, 60000)}"])
        c.harness_ok(rc, out, "verif-c11")
        c.correspond(out, drv)

    def search():
        if not binary:
            return
        for k in range(1, 6):
            rc, out = c.go_run(binary, [f"-n={c.n(10000, 60000)}", f"-seed={c.seed + 1000 * k}"])
            c.collect(out)
            if c.oracle:
                return
    return search


META = {
    "level": "proof",
    "technique": ("Lean 4 theorems (all byte strings / all decimal strings) over an executable model of validStringValue, "
                  "appendValidStringValue, ForceValidStringValue, utf8.DecodeRune/EncodeRune, ContainsRawTagValue(64)Bytes and "
                  "strconv.ParseInt/ParseUint + differential correspondence against the real functions"),
    "text": ("Kernel-checked, for arbitrary IsSpace/IsPrint tables with the four sanity facts of Tables.Sane (re-proved by decide "
             "for the tables of the Go toolchain in use) and any length limit: (1) valid_iff - validStringValue holds exactly "
             "for byte strings of at most maxLen bytes that decode as well-formed UTF-8 into runes that are all printable, whose "
             "only space is U+0020, with no leading, trailing or doubled space; (2) force_valid / force_valid_spec - forcing "
             "any byte string yields such a value; force_id_on_valid, force_idempotent, forceStr_eq_force; (3) strict "
             "normalisation succeeds on well-formed UTF-8, errs only on malformed UTF-8 and whenever it succeeds equals "
             "dst ++ force; (4) force_in_place_eq / force_in_place_memory - the array-level model of "
             "ForceValidStringValueBytes (dst = b[:0] aliasing src = b, every read looking at the shared array as it is) "
             "returns the out-of-place value for every backing array and capacity, and says what the caller's array holds "
             "afterwards; (5) the raw parsers accept exactly the decimal integers of their ranges and the stored pattern reads "
             "back; (6) no length is special (all theorems are over lists of any length; stated explicitly): "
             "force_ignores_leading_whitespace_length - whitespace of ANY length in front (the encodings of any number of "
             "space runes) does not take part in the result, also for the string variant and for strict normalisation "
             "when it succeeds; force_whitespace_run_length - a non-empty whitespace run of any length after whole runes "
             "acts exactly like one ASCII space; leading_zeros_irrelevant - any number of zeros in front of the digits, "
             "at the start or after the sign, gives the same answer from both raw parsers; each with examples for EVERY "
             "run length k (k spaces + host-42, tab dc1 + k newlines + rack7, k zeros + 42, '-' + k zeros + 1, 2^64-1 / "
             "2^64 behind k zeros). The models are tied to the code by replaying generated inputs on the real functions and on the compiled "
             "model, including the caller's backing array after the in-place call and whether the result aliases it; the "
             "generator draws run lengths log-uniformly up to several KB (64 KB in thorough) for every class of material."),
    "note": ("Trusted: Lean kernel; correspondence on generated inputs; the Lean re-modelling of utf8.DecodeRune/EncodeRune and "
             "strconv.ParseInt/ParseUint; Go's append/memmove semantics as modelled by appendAtZero/poke (checked through the "
             "'ip' op). Not claimed: strict = error <=> malformed UTF-8 (the converse is false for the code: bytes after the "
             "cut are not examined; counterexample kept in the file). The write-directly-to-dst variant (WriteMode.direct, the "
             "shape of seeded/C11-2) is in the model as a decide witness that it differs, plus direct_safe_when_not_growing: it "
             "equals the out-of-place value whenever no written rune is longer than what was read (write index never "
             "overtakes read index). force_whitespace_run_length asks that the bytes before the run are whole runes "
             "(Encoded); for an arbitrary prefix (e.g. ending in a truncated sequence) the statement is only tested "
             "(oracle force-whitespace-run-length), not proved. The in-place array model is replayed up to 4 KB only."),
    "design_ref": "DESIGN.md §6 C11",
}
