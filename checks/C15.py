"""C15 — metadata edits are versioned and optimistic-concurrency safe (DESIGN §6 C15)."""
HARNESS = "./cmd/verif-c15"
DRIVER = "drv_c15"
REPLAY_ARGS = ["-mode=c15"]


def run(c):
    c.rule = ("random histories of 10-45 requests against the REAL metadata.DBV2 (real SQLite, fsbinlog on tmpfs, scripted clock): "
              "create / edit from the current version / re-save UNCHANGED (same name, data, delete time; every entity type) and its stale repeat / edit from a stale, foreign or future version / rename (also onto used names and "
              "into missing namespaces) / delete / request of another type for an existing row / builtin (negative id) entities / "
              "duplicate creates, interleaved with journal reads and full paging walks, GetEntityVersioned, GetHistoryShort, state dumps; "
              "1 case in 25 carries 200-600 KB payloads to reach the journal byte limit; every 8th case races 8 goroutines with identical "
              "requests (create same name / edit same version / re-save unchanged from one version / edit stale version) and then 8 goroutines with DIFFERENT payloads (new names, data, "
              "metadata) from one version, of which only winner-independent facts are printed; every 4th case drives the journal long-poll path of the REAL "
              "rpc Handler over a loopback rpc server (2-4 clients sending metadata.getJournalnew, mostly continuing from the CurrentVersion they were "
              "given; saves applied with db.SaveEntity whose broadcastJournal is delayed to an explicit `broadcast` op, and saves through "
              "RawEditEntity; replies per client are diffed against the model's waiting list + trim rule). Non-trivial = a history with a successful edit AND a "
              "rename or name reuse AND a rejected stale version, or a race with exactly one winner, or a long-poll case in which a broadcast ran while clients were parked at different From values "
              "with the highest From equal to the version of a pending event; distinct by op-sequence hash")
    c.assumptions += [
        "one model step = one eng.Do callback: the engine runs callbacks one at a time on the single RW connection inside a savepoint that is "
        "rolled back on error (internal/sqlite/engine.go; that serialisation is C17's subject and is only exercised here by the race cases)",
        "SQLite is trusted: PRIMARY KEY/UNIQUE enforcement, AUTOINCREMENT, statement atomicity; the model encodes UNIQUE(namespace_id,type,name) as an explicit check",
        "strings are opaque tokens (names are pairs namespace-part/local-part); versions in requests are >= 0 (a negative version matches nothing, like any unused one)",
        "requests whose type differs from the stored row's type are generated: the typed row selection of SaveEntity must reject them (model = code, oracle edit-foreign-type-accepted)",
    ]
    c.prove("SH.Props.C15", extra_files=["SH/Model/Meta.lean"])
    drv = c.driver(DRIVER)
    binary = c.go_build(HARNESS)
    if binary and drv:
        # corpus first: minimised histories of past findings / quirks, replayed through -mode=script
        import glob, os
        for f in sorted(glob.glob(os.path.join(os.path.dirname(os.path.abspath(__file__)), "..", "corpus", "C15", "*.ops"))):
            rc, out = c.go_run(binary, ["-mode=script", "-arg=" + os.path.abspath(f)])
            c.harness_ok(rc, out, "verif-c15 -mode=script " + os.path.basename(f))
            c.correspond(out, drv, label="script:" + os.path.abspath(f))
        # several harness processes in parallel (each a different seed derived from VERIF_SEED), one correspondence each
        from concurrent.futures import ThreadPoolExecutor
        chunks, per = c.n((4, 70), (8, 1200))
        def one(k):
            return c.go_run(binary, ["-mode=c15", f"-n={per}", f"-seed={c.seed * 1000 + k}"], timeout=1500)
        with ThreadPoolExecutor(chunks) as ex:
            outs = list(ex.map(one, range(chunks)))
        for rc, out in outs:
            c.harness_ok(rc, out, "verif-c15 -mode=c15")
            c.correspond(out, drv)

    def search():
        if not binary:
            return
        for k in range(1, 6):
            rc, out = c.go_run(binary, ["-mode=c15", f"-n={c.n(1500, 6000)}", f"-seed={c.seed + 1000 * k}"], timeout=1500)
            c.collect(out, label="c15")
            if c.oracle:
                return
    return search


def replay(c):
    import json, sys, vf
    rp = json.load(open(c.replay))
    label = rp.get("label") or ""
    if label.startswith("script:"):       # a corpus history: re-run that script on the current tree and on the model
        binary = c.go_build(HARNESS); drv = c.driver(DRIVER)
        rc, out = c.go_run(binary, ["-mode=script", "-arg=" + label[len("script:"):]])
        print("---- implementation (current tree)"); print(out)
        cases, _, _ = vf.parse_stream(out)
        feed = "\n".join(l for cs in cases for l in [cs.header] + cs.ops) + "\n"
        print("---- model"); print(vf.sh([drv], stdin=feed)[1])
        return 1 if "\n! " in "\n" + out else 0
    import types
    return vf.generic_replay(c, types.SimpleNamespace(HARNESS=HARNESS, DRIVER=DRIVER, REPLAY_ARGS=REPLAY_ARGS))


META = {
    "level": "proof",
    "technique": ("Lean 4 theorems over an executable model of SaveEntity/JournalEvents (invariants by induction over all request histories) "
                  "+ op-by-op differential correspondence with the real DBV2 on real SQLite + direct property oracle on the real replies"),
    "text": ("Kernel-checked for every history of requests: an edit succeeds only from the entity's current version; every successful save "
             "gets max(previous versions)+1, so versions are globally unique and strictly increasing — with no hypothesis on the payload: an edit that "
             "re-saves the entity unchanged also gets the fresh version, a history row and a journal entry (edit_assigns_fresh_max_version); once an edit from version v succeeded no "
             "later request naming v can succeed (at most one winner in any schedule) and k otherwise-valid racing edits have exactly one winner, also when the racing requests differ in name/data/metadata (one_winner quantifies over arbitrary requests); "
             "(namespace_id,type,name) stays unique; an edit is applied only to a row of the request's own type (edit_preserves_type) and a request of a foreign type is rejected "
             "and changes nothing (foreign_type_edit_rejected); namespaces, FULL STRENGTH: whatever one SaveEntity does every namespace row keeps id, type and "
             "name (namespace_keeps_name) and so along ANY history, with no condition on the requests (namespace_not_renamable); no entity ever changes its "
             "type (entity_type_never_changes); the stored namespace_id is a function of (type, name) in every reachable state (NsInv: resolveEntity recomputes "
             "it from the name on every create and edit, namespace rows keep their names and have namespace_id 0), hence names are unique per type whatever the "
             "namespace_id, renames across namespaces included (name_unique_per_type, rename_onto_used_name_refused); a namespaced metric/group gets the id of an "
             "existing namespace row and that reference never dangles; the journal is strictly ascending by version, lists every entity at most "
             "once at its current version, is a prefix of the full list and paging from the last delivered version continues exactly where it stopped; with ANY operations running between the pages a client that pages by sinceVersion holds every "
             "current row at or below its since (paging_never_misses), so once it catches up it holds the latest version of every entity "
             "(paging_complete_when_caught_up). Long-poll (rpc_handler.go): every reply of broadcastJournal is non-empty, strictly ascending, "
             "only versions newer than that client's From, contains every current row between its From and the returned CurrentVersion; a "
             "request is parked only when nothing newer exists; consecutive replies of a client that continues from CurrentVersion never repeat a version."),
    "note": ("Trusted: Lean kernel, SQLite, the engine's serialisation of Do callbacks, model<->code correspondence on generated histories "
             "(quick 280, thorough 9600 histories + corpus). GENUINE DEFECT on the pinned tree (oracle signature namespace-renamed, corpus/C15/"
             "builtin-namespace-rename.ops): a namespace request with the create flag for an EXISTING builtin (negative id) namespace is turned into an "
             "edit by SaveEntity but skipped checkNamespace, so it renames the namespace. The model and the theorems describe the code with "
             "fixes/C15-builtin-namespace-rename.diff applied (Variant.fixed); Variant.old reproduces the pinned tree and the violation is a `decide` "
             "example in Props/C15. SECOND DEFECT, fixed by commit fb668983 (fixes/C15-edit-type-mismatch.proposal.diff, adopted): the edit path selected the row by "
             "(id, version) only, so metadata.editEntitynew of a foreign type aimed at a namespace's id renamed the namespace through the real rpc Handler. "
             "The model now has the type test (Variant.fixed); Variant.untyped / Variant.old reproduce the earlier trees with `decide` witnesses of both renames. "
             "corpus/C15/type-mismatch-namespace-rename.ops stays as a regression (the request is now answered invalid-version). The oracle has no tolerance "
             "left: any rename of a namespace row (namespace-renamed), any accepted edit of a foreign type (edit-foreign-type-accepted) and any change of a stored "
             "or reported type (entity-type-changed) is a violation."),
    "design_ref": "DESIGN.md §6 C15",
}
