"""C04 — aggregation results do not depend on merge order or grouping (DESIGN §6 C04)."""
HARNESS = "./cmd/verif-c04"
DRIVER = "drv_c04"


def gen(c):
    """regenerate lean/SH/Gen/C04.lean: the sketch constants as the compiler sees them in /repo"""
    b = c.go_build(HARNESS)
    if not b:
        return None
    rc, out = c.go_run(b, ["-mode=gen"])
    if rc != 0 or "namespace SH.Gen.C04" not in out:
        c.broken.append("verif-c04 -mode=gen failed:\n" + out[-1500:])
        c.oblige("regenerate SH/Gen/C04.lean from /repo", False, out, kind="tie")
        return None
    c.gen("C04", out)
    return b


def run(c):
    c.rule = ("a case draws 2-6 contributions (simple values/counters, streams of AddValueCounterHost events, arbitrary ItemValue leaves, "
              "each with a small unique sketch sharing values) and evaluates 4 merge programs on the real code (given order, permutations, "
              "random binary trees) through MultiValue.Merge (stream `values`: quick 400, thorough 8000); stream `ts` does the same for API "
              "rows with tsValues.merge (100 / 2000); stream `sketch` (6 / 80 cases) builds 2-3 sketches of 1..280000 values (sizes around 2^16 included) and merges them with ChUnique.Merge and "
              "MergeRead in several orders. Non-trivial = a merge consumed a random draw / two leaves tie for the minimum / API rows / "
              "sketch operands with different skipDegree; distinct by op-sequence hash")
    c.assumptions += [
        "float64 arithmetic is modelled exactly (Int) inside the exact domain only: integer values, counters that are multiples of 1/4; rounding outside it is not decided",
        "the open-addressing table of ChUnique is abstracted to the set of stored values (table layout, collision chains and resize data movement are validated only by the differential run, which compares stored values, itemsCount, skipDegree, sizeDegree after every op)",
        "rng.Uint64n(totalWeight) is an input of each model step (theorems hold for every draw); the harness predicts it on a copy of the rng and checks the real code consumed exactly that draw",
        "wire images handed to UmMarshall/MergeRead/ReadFrom are produced by the real MarshallAppend (no malformed sketches); ValueTDigest/percentiles are not modelled",
        "Size(false) is a fixed function of (itemsCount, skipDegree); the theorems are about that pair",
    ]
    binary = gen(c)
    c.prove("SH.Props.C04", extra_files=["SH/Model/Agg.lean", "SH/Model/Unique.lean", "SH/Lemmas/UniqueTrie.lean"])
    drv = c.driver(DRIVER)
    if binary and drv:
        # three streams (the label is the harness -mode, so that `bin/check C04 --replay f` regenerates the same case)
        for mode, n in (("values", c.n(400, 8000)), ("ts", c.n(100, 2000)), ("sketch", c.n(6, 80))):
            rc, out = c.go_run(binary, [f"-n={n}", f"-mode={mode}"], timeout=3000)
            c.harness_ok(rc, out, f"verif-c04 -mode={mode}")
            c.correspond(out, drv, label=mode, timeout=3000)

    def search():
        if not binary:
            return
        for k in range(1, 6):
            for mode, n in (("sketch", 30), ("values", c.n(2000, 8000)), ("ts", c.n(500, 2000))):
                rc, out = c.go_run(binary, [f"-n={n}", f"-mode={mode}", f"-seed={c.seed + 1000 * k}"], timeout=3000)
                c.collect(out, label=mode)
            if c.oracle:
                return
    return search


META = {
    "level": "proof",
    "technique": "Lean 4 theorems over an executable model of ItemValue/ItemCounter/tsValues merge and of the ChUnique sketch (set abstraction, bit trie), all merge trees by induction; differential correspondence op by op with the real code; direct order/grouping oracle on the real code",
    "text": ("Kernel-checked: for every binary merge tree over arbitrary contributions and every stream of random draws, count/min/max/sum/sum-of-squares are "
             "functions of the multiset of leaves (so any permutation and grouping agree), the min/max host is the host of a leaf that attains the min/max, "
             "the max-count host is the host of a leaf with positive count; for the sketch, every program of inserts and merges ends in the canonical state of the "
             "set of inserted hashes (least skipDegree that fits, the values divisible by it), for arbitrary size limit; decide-witnesses show the pre-fix Merge/MergeRead "
             "violate this. The model is tied to /repo by replaying every generated op on the real objects and on the compiled model."),
    "note": ("Trusted: Lean kernel, the model<->code correspondence on generated programs (incl. sketches above 2^16 values), exact-domain float arithmetic, the set "
             "abstraction of the open-addressing table (its layout/collision handling is only differential-tested). The theorems are about the code after "
             "fixes/C04-chunique-merge.diff (/repo commit e786491b: Merge filtered with rhs.good, MergeRead did not adopt skipDegree, readers chose sizeDegree 18 "
             "for exactly 2^16 values); on the tree before it the check prints VIOLATION with replays (sig unique-merge-order, unique-mergeread-vs-merge). "
             "Not proved: the table refinement (buf/place/rehash chains) and IEEE rounding outside the exact domain; ApplyUnique and t-digest are not modelled."),
    "design_ref": "DESIGN.md §6 C04",
}
