"""C04 — aggregation results do not depend on merge order or grouping (DESIGN §6 C04)."""
HARNESS = "./cmd/verif-c04"
DRIVER = "drv_c04"


def gen(c):
    """regenerate lean/SH/Gen/C04.lean: the sketch constants as the compiler sees them in /repo"""
    b = c.go_build(HARNESS)
    if not b:
        return None
    rc, out = c.go_run(b, ["-mode=gen"])
    if rc != 0 or "namespace SH.Gen.C04" not in out:
        c.broken.append("verif-c04 -mode=gen failed:\n" + out[-1500:])
        c.oblige("regenerate SH/Gen/C04.lean from /repo", False, out, kind="tie")
        return None
    c.gen("C04", out)
    return b


def run(c):
    c.rule = ("a case draws 2-6 contributions (simple values/counters, streams of agent-side events through the glue AddCounterHost / AddValueCounterHost / ApplyValues / "
              "ApplyValuesLegacy / ApplyUnique - each stream is also replayed in another order and compared with the sum of its singleton contributions -, arbitrary ItemValue leaves, "
              "each with a small unique sketch sharing values) and evaluates 4 merge programs on the real code (given order, permutations, "
              "random binary trees) through MultiValue.Merge (stream `values`: quick 400, thorough 8000); stream `ts` does the same for API "
              "rows with tsValues.merge (100 / 2000) under a random subset of selected columns (unselected columns are zero in every row; a third of the cases select all); stream `sketch` (4 / 80 cases) builds 2-3 sketches of 1..280000 values (sizes around 2^16 included) and merges them with ChUnique.Merge and "
              "MergeRead in several orders; stream `wrap` (150 / 3000 cases) loads crafted well-formed images into 16-slot tables whose collision chains wrap past the last slot, thins them "
              "through a contribution with a higher skipDegree (Merge and MergeRead) and merges surviving hashes again in 5 groupings. A third of the leaves also take a MultiValue.ApplyUnique event. After every sketch op the real table is compared slot by slot with the table model "
              "and every stored value is looked up with the real insertImpl probe (oracle unique-item-unreachable / unique-count-mismatch). Non-trivial = a merge consumed a random draw / two leaves tie for the minimum / API rows / "
              "sketch operands with different skipDegree; distinct by op-sequence hash")
    c.assumptions += [
        "float64 arithmetic is modelled exactly (Int) inside the exact domain only: integer values, counters that are multiples of 1/4; rounding outside it is not decided",
        "ChUnique is modelled twice: as a set (SH.Model.Unique, Part 3 theorems) and as the concrete open-addressing table (SH.Model.UniqueTable: buf, place, probing with wrap-around, both rehash loops, the resize relocation loop). Every replayed op is run on both; the table model must reproduce the real table slot by slot (B lines: layout digest, full buf up to 64 slots, and the well-formedness flag). Parts 4/6 prove that every table op commutes with the abstraction, that insertImpl keeps and rehash (both loops) and resize (real loop bound) restore well-formedness, so WF is an invariant of insertHash incl. thinning and growth, and that EVERY program (inserts, Merge, MarshallAppend+MergeRead/UmMarshall, any order and grouping) run on the real table ends well-formed, abstracted by the set model, in the canonical sketch of the inserted set; the executable wfb (= WF, proved) is additionally evaluated on every replayed op and the real table is probed by the oracle unique-item-unreachable",
        "rng.Uint64n(totalWeight) is an input of each model step (theorems hold for every draw); the harness predicts it on a copy of the rng and checks the real code consumed exactly that draw",
        "wire images handed to UmMarshall/MergeRead/ReadFrom are produced by the real MarshallAppend (no malformed sketches); ValueTDigest/percentiles are not modelled",
        "Size(false) is a fixed function of (itemsCount, skipDegree); the theorems are about that pair",
    ]
    binary = gen(c)
    c.prove("SH.Props.C04", extra_files=["SH/Model/Agg.lean", "SH/Model/Unique.lean", "SH/Model/UniqueTable.lean", "SH/Lemmas/UniqueTrie.lean", "SH/Lemmas/UniqueTable.lean", "SH/Lemmas/UniqueTableWF.lean"])
    drv = c.driver(DRIVER)
    if binary and drv:
        # three streams (the label is the harness -mode, so that `bin/check C04 --replay f` regenerates the same case)
        for mode, n in (("values", c.n(400, 8000)), ("ts", c.n(100, 2000)), ("sketch", c.n(4, 80)), ("wrap", c.n(150, 3000))):
            rc, out = c.go_run(binary, [f"-n={n}", f"-mode={mode}"], timeout=3000)
            c.harness_ok(rc, out, f"verif-c04 -mode={mode}")
            c.correspond(out, drv, label=mode, timeout=3000)

    def search():
        if not binary:
            return
        for k in range(1, 6):
            for mode, n in (("sketch", 30), ("wrap", 3000), ("values", c.n(2000, 8000)), ("ts", c.n(500, 2000))):
                rc, out = c.go_run(binary, [f"-n={n}", f"-mode={mode}", f"-seed={c.seed + 1000 * k}"], timeout=3000)
                c.collect(out, label=mode)
            if c.oracle:
                return
    return search


META = {
    "level": "proof",
    "technique": "Lean 4 theorems over an executable model of ItemValue/ItemCounter/tsValues merge and of the ChUnique sketch (set abstraction, bit trie), all merge trees by induction; differential correspondence op by op with the real code; direct order/grouping oracle on the real code",
    "text": ("Kernel-checked: (1) for every binary merge tree over arbitrary contributions and every stream of random draws, count/min/max/sum/sum-of-squares are "
             "functions of the multiset of leaves (any permutation and grouping agree), the min/max host is the host of a leaf that attains the min/max, the max-count host is "
             "the host of a leaf with positive count; AddValueCounterHost, ApplyValues, ApplyValuesLegacy and ApplyUnique are merges with one well-formed leaf whatever the accumulator holds (so every stream of agent-side events, incl. a counter before the first value, is covered); (2) the same for API rows (tsValues.merge), for every subset of selected columns (unselected columns zero in every row, e.g. count not selected); (3) for the sketch, "
             "every program of inserts, Merge and MergeRead-over-the-wire ends in the canonical state of the set of inserted hashes (least skipDegree that fits, the values divisible "
             "by it), for arbitrary size limit; decide-witnesses show the pre-fix Merge/MergeRead violate this; (4) the concrete open-addressing table (buf, probing with wrap-around, "
             "rehash with both loops, resize with its relocation loop) refines the set model: every table op commutes with the abstraction; the invariant WF (every stored "
             "value reachable from its home slot without crossing an empty slot, stored once, itemsCount = occupied slots) is kept by insertImpl and RESTORED by rehash (the pass "
             "over the table plus 'process the first collision chain again') and by resize with the real bound `i < oldSize || buf[i] != 0`, hence invariant across insertHash incl. "
             "thinning and growth; for EVERY program of inserts, Merge and MarshallAppend+MergeRead (UmMarshall for a zero-value receiver), in any order and grouping, run on the "
             "concrete table (table_refines_programs / table_canonical): the table is the zero value or well-formed, it holds exactly the inserted hashes divisible by 2^skipDegree, "
             "skipDegree is the least degree that fits, itemsCount is their number, and skipDegree/itemsCount/values equal those of the set model (canonical_sketch); corollary "
             "table_order_independent: two programs inserting the same set of hashes give tables with equal values, skipDegree and itemsCount (hence equal Size()). The executable "
             "wfb is proved equivalent to WF. The models are tied to /repo by replaying every generated op on the real objects and on the compiled models, comparing value fields, "
             "sketch contents and the table layout slot by slot."),
    "note": ("Trusted: Lean kernel, the model<->code correspondence on generated programs (incl. sketches above 2^16 values), exact-domain float arithmetic. "
             "Hypotheses of the table theorems, all maintained by the code and derived inside the program theorem: one free slot for rehash/resize (itemsCount <= maxFill = half the "
             "table before every insert), new size >= 2x old size for resize, table size >= 4 (2 <= initial degree; the code has 4), hashes below 2^bits. table_refines is no longer "
             "partial: Merge (zero item + fold of the insertHash step over rhs.buf in slot order after the adoption rehash), MergeRead (adoption rehash, resize, fold over the wire list) "
             "and UmMarshall are inside the single program theorem. Decide counter-examples: skipping the second rehash pass when the last slot is free (seeded C04-r6-1) strands the wrapped survivor of a thinned chain; with the resize loop shortened to `i < oldSize` (seeded C03-2) all value-level "
             "theorems still hold but a wrapped value is stranded and the next insert of it is counted twice. The theorems are about the code after fixes/C04-chunique-merge.diff "
             "(/repo e786491b). Not modelled/decided: malformed wire images (duplicates, values not divisible by 2^skipDegree), IEEE rounding outside the exact domain; ApplyUnique "
             "rescaling only where the division is exact; t-digest."),
    "design_ref": "DESIGN.md §6 C04",
}
