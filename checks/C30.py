"""C30 — access control grants exactly the permissions carried by a valid token (DESIGN §6 C30)."""
HARNESS = "./cmd/verif-c30"
DRIVER = "drv_c30"


def gen(c, binary):
    """lean/SH/Gen/C30.lean: JWTTimeWindow, issuer, kind value, EdDSA alg name, golang-jwt's registered algorithms and
    error bits, the names format.RemoteConfigMetric answers true for — all as compiled from the working tree"""
    rc, out = c.go_run(binary, ["-mode=gen"])
    ok = rc == 0 and "namespace SH.Gen.C30" in out and "end SH.Gen.C30" in out
    c.oblige("regenerate lean/SH/Gen/C30.lean from the working tree (verif-c30 -mode=gen)", ok, out, kind="tie")
    if ok:
        c.gen("C30", out)
    else:
        c.broken.append("verif-c30 -mode=gen failed:\n" + out[-2000:])
    return ok


def run(c):
    c.rule = ("every case: 1-4 fresh Ed25519 keys are configured through the REAL vkuth.ParseVkuthKeys from their base64 list (key rotation; "
              "sometimes a key listed twice, sometimes an extra wrong-size entry) plus one unconfigured key; the resulting map is compared "
              "entry by entry with the model's key table (kid = fingerprint -> that key's own bytes) and handed to a real JWTHelper "
              "(injected clock), which parses a SEQUENCE of 1-5 tokens in one process. Each token is minted from a spec = a valid "
              "token signed by one of the configured keys and naming it, changed in 0 (30%), 1 (60%) or 2 (10%) aspects out of alg / kind / "
              "kid (another configured key, the unconfigured key, junk) / signature (signed by another configured key, by the LAST configured "
              "key, by the unconfigured key, bit flip, truncation, ...) / iss / user / exp / iat / nbf "
              "(+-5 s boundaries at ms, quarter-second and second offsets; boundary-aware absolute times: the epoch, negative, year 1900 / "
              "9999, now -/+ 2^63 ns and 2^64 ns and the band between them, +-2^63 ns, +-2^53 s, and for exp JSON numbers beyond 2^53 s such "
              "as Min/MaxInt64, 1e19, 1e300; valid tokens also with far-future exp / far-past iat) / malformed segments; claims JSON shapes: bits key present / "
              "absent / null / [], vkuth_data absent / null, user / iss / exp / iat / nbf absent or null, is_service omitted / false / "
              "null; bit sets: first token usually privileged, later tokens random / bit-less / a subset of the previous token's bits / "
              "the previous bits under another application's prefix (own prefix, foreign and near-miss prefixes, all ten bit forms, junk). "
              "Every token goes through the real parseAccessToken and, if accepted, through CanViewMetricName / canChangeMetricByName / "
              "CanEditMetric calls (3-5 / 1-2 / 3-6 after the last token, fewer after earlier ones) on names biased to what the bits "
              "mention and MetricMetaValue pairs differing in 0-2 fields. The model decides each token alone, so a leak between tokens "
              "is a disagreement. non-trivial = some token differs from a valid one in exactly one aspect, or a non-admin edit reached "
              "the field checks, or an accepted bit-less token follows a token that carried own-prefix bits; distinct by op-sequence hash")
    c.assumptions += [
        "Ed25519 is not modelled: the harness verifies the signature segment itself with crypto/ed25519 under each of ITS OWN public keys "
        "(configured or not; never the map returned by the code under test) and passes the list of key BYTES that verify to the model "
        "(Token.sigValid, i.e. valid : Key -> Token -> Bool as data); the model looks the kid up in its key table and demands that THAT "
        "key is in the list",
        "sha256 is not modelled: key fingerprints (= key ids) are computed by the harness independently (hex of the first 8 bytes of "
        "SHA-256) and are a parameter `fp` of the model's parseKeys",
        "base64 / JSON decoding of the token segments by golang-jwt and encoding/json is not modelled: a token whose segments do not "
        "decode is the model input `malformed`; header and claim values reach the model as the harness's spec of the token",
        "golang-jwt's check order and error bits (ParseWithClaims) are modelled and compared through the error mask of every rejection",
        "times are unbounded Int milliseconds in the model (time.Time comparisons do not overflow); JSON numbers up to 2^53 s are exact "
        "in float64 and reach the model as generated; for exp beyond 2^53 s (float64 rounding, Go's implementation-defined float->int64 "
        "conversion) the model is given the seconds golang-jwt's own NumericDate decoding yields, the oracle uses the number as written",
        "Weight is float64 in Go; the model uses quarters (exact domain); NaN weights are not generated",
        "local / insecure mode (token ignored by design) is modelled and compared but excluded from the acceptance oracle",
        "'the grants are a function of (configuration, clock, token) alone' is the FORM of the model (parseAccessToken has no state "
        "argument); that the code has no memory between tokens (pooled / reused decode targets, caches) is established only by the "
        "sequence correspondence and the grant-depends-on-previous-token oracle, i.e. on the generated sequences",
    ]
    binary = c.go_build(HARNESS)
    if binary:
        gen(c, binary)
    c.prove("SH.Props.C30", extra_files=["SH/Model/Access.lean", "SH/Gen/C30.lean"])
    drv = c.driver(DRIVER)
    if binary and drv:
        # thorough: 5 chunks of 30000 cases (sequences of 1-5 tokens) with seeds derived from VERIF_SEED (keeps the text held in memory small)
        for k in range(c.n(1, 5)):
            rc, out = c.go_run(binary, [f"-n={c.n(8000, 30000)}", f"-seed={c.seed + 7919 * k}"])
            c.harness_ok(rc, out, "verif-c30")
            c.correspond(out, drv)
            del out

    def search():
        if not binary:
            return
        for k in range(1, 6):
            rc, out = c.go_run(binary, [f"-n={c.n(20000, 100000)}", f"-seed={c.seed + 1000 * k}"])
            c.collect(out)
            if c.oracle:
                return
    return search


META = {
    "level": "proof",
    "technique": ("Lean 4 theorems (all tokens, bit sets, protected prefixes, metric pairs) over an executable model of token acceptance, "
                  "bit parsing and the view/edit policy + differential correspondence with the real parseAccessToken / CanViewMetricName / "
                  "canChangeMetricByName / CanEditMetric on minted Ed25519 tokens + direct property oracle"),
    "text": ("Kernel-checked: a token is accepted iff alg=EdDSA, kind=token, kid names a configured key under which the signature verifies, "
             "(the key table kid -> key bytes is modelled: parseKeys = ParseVkuthKeys stores every listed key under its own fingerprint "
             "(parseKeys_sound / parseKeys_complete), and an accepted token's signature verifies under THE listed key whose fingerprint its "
             "kid is (accept_signed_by_named_key, wrong_key_rejected)), iss=vkuth, user non-empty, exp present and now < exp+5s, iat present and iat <= now+5s, nbf absent or <= now, "
             "all on unbounded integer time - every expired token is rejected however long ago it expired (long_expired_rejected), and the "
             "int64-nanosecond-wrapping variant of the expiry test is shown to differ (expOkWrap_accepts_long_expired) while agreeing within "
             "+-292 years (expOkWrap_agrees) (accept_iff, "
             "parse_ok_only_if); the accessInfo depends only on bits carrying the application prefix and every granted flag / prefix / "
             "metric traces back to such a bit (grants_only_app_bits, *_traced); a non-admin views a name only through a metric, prefix, "
             "namespace or default-unprotected bit of the token (view_only_through_bit), edits only with such a right on both names "
             "(edit_needs_both), never sees or changes remote-config metrics, and an accepted non-admin edit leaves weight (except 0->1), "
             "presort, sharding x5, skips x3 and every tag's raw-ness unchanged (frozen_fields). The model is tied to the code by replaying "
             "every generated token and policy query on the real functions and on the compiled model and diffing verdicts, error masks, "
             "granted sets and decisions; tokens are parsed in sequences by one JWTHelper in one process while the model decides each token "
             "alone, so state leaking from one token into the next is a disagreement (and the oracle grant-depends-on-previous-token)."),
    "note": ("The theorems speak about one token at a time: statelessness of the real parser is the model's form, tied to the code only by "
             "the sequence correspondence. Partial: Ed25519 and golang-jwt's base64/JSON decoding are trusted (signature validity and the decoded header/claims are "
             "inputs of the model). Trusted: Lean kernel; the correspondence on generated cases (quick 8000 sequences of 1-5 tokens, thorough 5 x 30000). "
             "Finding outside the property: a correctly signed token WITHOUT exp makes Claims.Valid panic (nil dereference) instead of "
             "returning an error - the token is not accepted, so the property holds; the model reproduces the panic."),
    "design_ref": "DESIGN.md §6 C30",
}
