"""C31 — the balancer forwards every accepted packet upstream promptly and in order (DESIGN §6 C31)."""
HARNESS = "./cmd/verif-c31"
DRIVER = "drv_c31"


def run(c):
    c.rule = ("layer 1: random schedules of handler pushes (single / bursts aimed at the 20 % batch threshold, bufferLen and 2*bufferLen), "
              "sender pops with scripted write results (ok / error with k packets left), real batch timeouts, Stats, would-block reports, "
              "reconnect tokens, Close, on the real handler+Egress+tcpPool+pktBuffer with the harness playing the sender goroutine; "
              "layer 2: live sendLoop goroutines against loopback TCP sinks (idle tail after a partial batch, upstream unresolved then "
              "resolved with both buffers full, connection resets under traffic, the real NewEgress, an idle connection reset followed by a "
              "multi-packet batch = write error on the first packet with exact loss accounting, a one-batch burst of large packets into an "
              "upstream that reads m frames, stalls and resets = write error in the middle / towards the end of the batch with "
              "duplicate, order and bounded-in-flight-loss checks); scenarios rotate with the trial index. Non-trivial = the case contains a batch timeout "
              "that has to release a partial batch / an idle tail after a partial batch, a failover, a both-buffers-full drop, a write "
              "error or an upstream reset; distinct by op-sequence hash")
    c.assumptions += [
        "one model step = one critical section of pktBuffer.mu; sync.Cond/sync.Mutex/time.AfterFunc/TCP are trusted (Go runtime, kernel)",
        "the number of goroutines in cond.Wait is read from sync.Cond's ticket counters (self-tested at harness start)",
        "real time: the batch timeout is 1 s; the oracle allows 10 s; a layer-1 case that stalls > 0.5 s between two ops is re-run",
        "sendLoop (reconnect, write-error handling, the write callback whose return value pop turns into ri = rm - n) is exercised only "
        "end-to-end (layer 2): the callback is a closure inside sendLoop and the connection comes from net.Dialer, so it cannot be "
        "driven step by step without copying it; its contract with pop is the Lean theorem callback_contract + the live scenarios 4/5",
        "scenario 5 bounds TCP in-flight loss by /proc/sys/net/ipv4/tcp_wmem[2] + 512 KiB (sink receive buffer fixed at 4 KiB); "
        "if that file is unreadable the bound is not evaluated",
        "packets already handed to the kernel when a connection dies are outside the property (TCP); "
        "the packet being written when a write fails is not resent by design ('not resend for last') and is counted in WriteErrors",
        "both senders have a resolved address (with a single upstream address the secondary never connects; not part of the quantifier)",
    ]
    c.prove("SH.Props.C31", extra_files=["SH/Model/Egress.lean"])
    drv = c.driver(DRIVER)
    binary = c.go_build(HARNESS)
    if binary and drv:
        # every 8th case is a live trial: quick 112 + 16, thorough 2800 + 400 (each costs >= 1 s of real time; 24 run concurrently)
        rc, out = c.go_run(binary, [f"-n={c.n(128, 3200)}"], timeout=3000)
        c.harness_ok(rc, out, "verif-c31")
        c.correspond(out, drv)

    def search():
        if not binary:
            return
        for k in range(1, 4):
            rc, out = c.go_run(binary, [f"-n={c.n(256, 1024)}", f"-seed={c.seed + 1000 * k}"], timeout=2400)
            c.collect(out, label="")
            if c.oracle:
                return
    return search


META = {
    "level": "proof",
    "technique": ("Lean 4 theorems over an executable state-machine model of pktBuffer/tcpPool/handler (induction over all interleavings of "
                  "critical sections) + step-by-step differential correspondence with the real objects + live loopback end-to-end oracle"),
    "text": ("Kernel-checked for every interleaving of pushes, sender steps, wake-ups, timer callbacks and Close: per sender the accepted "
             "packets are exactly (already written or skipped-after-write-error) ++ (current read batch) ++ (write buffer), in acceptance "
             "order, nothing duplicated or lost; concatenated length frames parse back to the bodies; a push is refused iff the pool is "
             "closed or both buffers hold bufferLen packets, and every refusal is counted and its bytes are in wouldBlockBytes / reports; "
             "no wake-up is lost: a parked sender whose wait condition is false always has a pending wake-up, so after the batch timeout "
             "fires the sender leaves swap() and the whole write buffer goes to the next upstream write (at most one timeout period). "
             "The pinned code's timer callback does not signal: the model variant `.silent` reaches a stuck state (by decide) and the "
             "real code shows it (oracle sig sender-sleeps-through-batch-timeout)."),
    "note": ("Partial: real-time bounds are measured, not proved (1 s timer, 10 s budget); sendLoop's reconnect/deadline logic and TCP are "
             "exercised end-to-end only; interleavings inside a critical section and the Go memory model are trusted. The model is the code "
             "after the fix: commit 26657431 (= fixes/C31-swap-timeout-wakes-sender.diff); on its parent the check reports "
             "VIOLATION sig=sender-sleeps-through-batch-timeout with a replay on the real code."),
    "design_ref": "DESIGN.md §6 C31",
}
