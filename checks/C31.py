"""C31 — the balancer forwards every accepted packet upstream promptly and in order (DESIGN §6 C31)."""
HARNESS = "./cmd/verif-c31"
DRIVER = "drv_c31"


def run(c):
    c.rule = ("layer 1: random schedules of handler pushes (single / bursts aimed at the 20 % batch threshold, bufferLen and 2*bufferLen), "
              "sender pops with scripted write results (ok / error with k packets left), real batch timeouts, Stats, would-block reports "
              "(also with a packet handed in - and dropped when both buffers are full - while the report is being written), "
              "addressPool.pick sequences after replacePool, reconnect tokens, Close, on the real handler+Egress+tcpPool+pktBuffer with the harness playing the sender goroutine; "
              "layer 2: live sendLoop goroutines against loopback TCP sinks (idle tail after a partial batch, upstream unresolved then "
              "resolved with both buffers full, connection resets under traffic, the real NewEgress, an idle connection reset followed by a "
              "multi-packet batch = write error on the first packet with exact loss accounting, a one-batch burst of large packets into an "
              "upstream that reads m frames, stalls and resets = write error in the middle / towards the end of the batch with "
              "duplicate, order and bounded-in-flight-loss checks, an upstream that stops reading WITHOUT closing = the sender's write "
              "deadline (WriteTimeout 3 s, budget 30 s) must end the blocked write, then reconnect and forward, a primary address pool "
              "with 1-3 dead addresses (connection refused) around one live upstream = reconnect must go round the pool, budget 16 s, "
              "per-connection upstream scripts R*B = 0-2 connections reset right after the handshake (write error within the deadline-"
              "refresh period), then a black-hole connection filled with large packets, then healthy + marker burst, budget 30 s); "
              "scenarios rotate with "
              "the trial index. Non-trivial = the case contains a batch timeout "
              "that has to release a partial batch / an idle tail after a partial batch, a failover, a both-buffers-full drop, a write "
              "error or an upstream reset; distinct by op-sequence hash")
    c.assumptions += [
        "one model step = one critical section of pktBuffer.mu; sync.Cond/sync.Mutex/time.AfterFunc/TCP are trusted (Go runtime, kernel)",
        "the number of goroutines in cond.Wait is read from sync.Cond's ticket counters (self-tested at harness start)",
        "real time: the batch timeout is 1 s; the oracle allows 10 s; a layer-1 case that stalls > 0.5 s between two ops is re-run",
        "sendLoop (reconnect, write-error handling, the write callback whose return value pop turns into ri = rm - n) is exercised only "
        "end-to-end (layer 2): the callback is a closure inside sendLoop and the connection comes from net.Dialer, so it cannot be "
        "driven step by step without copying it; its contract with pop is the Lean theorem callback_contract + the live scenarios 4/5",
        "scenario 5 bounds TCP in-flight loss by /proc/sys/net/ipv4/tcp_wmem[2] + 512 KiB (sink receive buffer fixed at 4 KiB); "
        "if that file is unreadable the bound is not evaluated",
        "packets already handed to the kernel when a connection dies are outside the property (TCP); "
        "the packet being written when a write fails is not resent by design ('not resend for last') and is counted in WriteErrors",
        "both senders have a resolved address (with a single upstream address the secondary never connects; not part of the quantifier)",
    ]
    c.prove("SH.Lemmas.Egress", extra_files=["SH/Model/Egress.lean"])      # helper development (invariants, case analyses)
    c.prove("SH.Props.C31", extra_files=["SH/Model/Egress.lean", "SH/Lemmas/Egress.lean"])
    drv = c.driver(DRIVER)
    binary = c.go_build(HARNESS)
    if binary and drv:
        # every 8th case is a live trial: quick 112 + 16, thorough 2800 + 400 (each costs >= 1 s of real time; 24 run concurrently)
        rc, out = c.go_run(binary, [f"-n={c.n(128, 3200)}"], timeout=3000)
        c.harness_ok(rc, out, "verif-c31")
        c.correspond(out, drv)

    def search():
        if not binary:
            return
        for k in range(1, 4):
            rc, out = c.go_run(binary, [f"-n={c.n(256, 1024)}", f"-seed={c.seed + 1000 * k}"], timeout=2400)
            c.collect(out, label="")
            if c.oracle:
                return
    return search


META = {
    "level": "proof",
    "technique": ("Lean 4 theorems over an executable state-machine model of pktBuffer/tcpPool/handler (+ a write-deadline layer for sendLoop): "
                  "induction over all interleavings of critical sections; step-by-step differential correspondence with the real objects; "
                  "live loopback end-to-end oracle for sendLoop"),
    "text": ("Kernel-checked for every history (pushes, sender steps, wake-ups, batch-timer callbacks, Close, Stats, reports, in any interleaving): "
             "(order, per sender) accepted = finished (written, or skipped: one per failed write) ++ rest of read batch ++ write buffer, nothing "
             "duplicated/reordered/lost, |w| <= bufferLen [fifo_per_sender, written_in_acceptance_order]; (order, pool) the global acceptance log is "
             "partitioned by the sender tags, each sender's log is exactly its projection, so no packet is taken by both senders and every "
             "connection's writes are a subsequence of the pool's acceptance order across any number of failovers; a failover happens only "
             "when the primary pointer's buffer is full, leaves a reconnect request for it and swaps the pointers [pool_fifo_across_failover, "
             "failover_spec]; (framing) every accepted packet is le32(len)++body of a non-empty handler packet and concatenated frames parse "
             "back [accepted_are_frames, frames_parse_back]; (drops) a push is refused iff the pool is closed or both buffers are full, the "
             "refusal is counted and its bytes go to wouldBlockBytes [drop_iff_both_full]; the books balance after every history and from any "
             "reachable state one scheduled loop iteration of the primary sender on a live connection (<= 8 forced moves, <= 2 timer expiries) "
             "moves every pending byte to `reported` exactly once [drops_counted_and_reported, drops_reported_within_one_loop_iteration]; "
             "(promptness) no wake-up is lost and after the last push <= 6 forced moves with <= 1 batch-timer expiry hand everything buffered "
             "to a successful write [never_stuck, flush_within_one_timeout, prompt_even_if_idle_partial]; a failed write gives up exactly "
             "the packet being written and the callback's return value makes pop resume right after it [write_error_skips_exactly_one, "
             "callback_contract]; (reconnection) addressPool.pick advances round-robin, so any len(addrs) consecutive reconnect attempts dial "
             "every address of the pool [pick_kth, pick_visits_all]; (stalled upstream) sendLoop's deadline bookkeeping is modelled (writeDeadline zero/fresh/aged, refresh at the loop "
             "top, reset after reconnect, passing time): for every history every write happens on a connection that carries a write "
             "deadline and the bookkeeping is non-zero only if the current connection has one [write_always_armed]; the expiry ends a "
             "blocked write with exactly one packet given up [stalled_write_released]. Counter-examples by decide for the "
             "code before each fix: timer callback without Broadcast (stuck after idle tail), deadline never armed (stuck in WriteTo), bookkeeping "
             "not reset on the write-error path (seeded C31-r3-2: next connection unarmed until the stale value has aged)."),
    "note": ("Partial. Not proved: real-time lengths (batch timer 1 s, WriteTimeout, write duration) - measured with 10x budgets; sendLoop's "
             "reconnect loop (ReconnectDelay, DialTimeout, address rotation) and TCP - exercised end to end only; scheduler fairness is the "
             "hypothesis 'the forced moves happen'; interleavings inside a critical section and the Go memory model are trusted. The write-"
             "deadline layer (PoolD/stepD) has no step-level correspondence (sendLoop cannot be single-stepped): it is tied to the code by "
             "live scenarios 6 and 8 only. The model is the code after fix 26657431 (swap timeout wakes sender) and fix 18236950 "
             "(sendLoop arms the write deadline: `writeDeadline.IsZero() || ...`); on their parents the check reports "
             "sig=sender-sleeps-through-batch-timeout / sig=stalled-upstream-blocks-sender with replays on the real code."),
    "design_ref": "DESIGN.md §6 C31",
}
