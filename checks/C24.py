"""C24 — the API points cache never serves rows older than an invalidation (DESIGN §6 C24)."""
HARNESS = "./cmd/verif-c24"
DRIVER = "drv_c24"


def gen(c, binary):
    """SH/Gen/C24.lean: invalidateFrom, invalidateLinger, maxEvictionSampleSize, steps as the compiler sees them"""
    rc, out = c.go_run(binary, ["-mode=gen"])
    ok = rc == 0 and "namespace SH.Gen.C24" in out and out.rstrip().endswith("end SH.Gen.C24")
    c.oblige("regenerate lean/SH/Gen/C24.lean from /repo (cache constants)", ok, out, kind="tie")
    if ok:
        c.gen("C24", out)
    else:
        c.broken.append("verif-c24 -mode=gen failed:\n" + out[-1500:])
    return ok


def run(c):
    c.rule = ("random histories of get / invalidate / clock jumps on the REAL pointsCache with an injected scripted clock "
              "(every now() reading is an input, monotone in ~86% of the cases) and a recording loader that also runs "
              "concurrent invalidate/get calls while a load is in flight; ranges are built around the mutable edge "
              "(now-48h), hour/minute boundaries and the 15 s linger; 4% of the cases use >100 keys and >100 invalidated "
              "seconds so that the sampled eviction / gc loops are partial. One model op per critical section. "
              "non-trivial = a cached range inside the mutable window was both re-validated (served with an invalidated "
              "second in range) and found stale (reloaded), or an eviction / sampled gc happened; distinct by op-sequence hash")
    c.assumptions += [
        "one model step = one critical section under pointsCache.cacheMu (sync.RWMutex and atomic.Int64 trusted); "
        "get() is two steps because the loader runs without the lock",
        "Go map iteration order is an input: the harness observes which keys evictLocked / invalidateLocked removed and the "
        "model checks that the real loops can make that choice (evictLegal / gcLegal)",
        "int64 wrap-around is not modelled (times are Unix nanoseconds of this century)",
        "cache keys are non-empty strings (getOrBuildCacheKey never returns an empty key), approxMaxSize >= 1",
    ]
    binary = c.go_build(HARNESS)
    if binary:
        gen(c, binary)
    c.prove("SH.Props.C24", extra_files=["SH/Model/PCache.lean", "SH/Gen/C24.lean"])
    drv = c.driver(DRIVER)
    if binary and drv:
        # thorough: 5 runs of 4000 histories with seeds derived from VERIF_SEED (bounds the size of one output stream)
        runs = c.n(1, 5)
        for k in range(runs):
            rc, out = c.go_run(binary, [f"-n={c.n(1500, 4000)}", f"-seed={c.seed + 7919 * k}"])
            c.harness_ok(rc, out, "verif-c24")
            c.correspond(out, drv)
            del out

    def search():
        if not binary:
            return
        for k in range(1, 6):
            rc, out = c.go_run(binary, [f"-n={c.n(6000, 40000)}", f"-seed={c.seed + 1000 * k}"])
            c.collect(out, label="")
            if c.oracle:
                return
    return search


META = {
    "level": "proof",
    "technique": ("Lean 4 theorems over an executable model of pcache.go (induction over all histories of lookup/store/invalidate "
                  "critical sections with clocks as inputs) + step-by-step differential correspondence with the real pointsCache"),
    "text": ("Kernel-checked theorems for EVERY history of loadCached / store / invalidate critical sections (all keys, ranges, "
             "clock readings, eviction choices, gc deletions, utcOffsets): the hour/minute/second recursion of "
             "checkInvalidationMapLocked never misses an invalidated second of [from,to] (checkLevels_sound, for any positive "
             "steps ending in 1); the coarse maps dominate the per-second map on every bucket not older than the gc edge and the "
             "per-second map remembers the latest clock of every invalidation not older than it (run_good, an invariant of "
             "updateTimeLocked/invalidateLocked); hence a result is served from the cache only if its load-start reading is later "
             "than tAt+linger for every invalidation (sec,tAt) in range and inside the mutable window (served_fresh), otherwise the "
             "lookup answers stale and get reloads (invalidated_is_reloaded); a range that ended before the window is served as "
             "stored (immutable_served); rows and load time are stored together by one store section for exactly that key and range "
             "(served_rows_stored_by_load); the accounted size never exceeds approxMaxSize+1+largest load and dominates the real "
             "content (cache_within_bound, cache_content_bounded). The model is tied to pcache.go by replaying each generated history "
             "section by section on the real pointsCache and on the compiled Lean model and diffing hits/misses, every touched entry "
             "(lru, rowsSize, ranges with loadedAt/n/generation), size, map sizes and a final full dump of cache and level maps. A "
             "direct oracle on the real code replays all invalidations naively per second and flags stale-served, "
             "served-not-latest-load, immutable-reloaded, size-bound."),
    "note": ("Trusted: Lean kernel; the model<->code correspondence on generated histories (quick 1500, thorough 5 x 4000 cases); "
             "sync.RWMutex/atomic semantics (one critical section = one model step); Go map order treated as an input whose "
             "legality the model checks. Clock hypothesis of served_fresh: the lookup's clock is not behind the clock of an "
             "earlier invalidate call (gc forgets seconds older than its own edge); clock_hypothesis_needed shows by decide that "
             "the code serves stale rows when a wall clock steps back by hours - inherent to the design, not reported as a defect. "
             "Not proved: that the eviction loop terminates (needs exact accounting size = sum of entry costs; the model flags "
             "`hang`, never observed; it can only happen with approxMaxSize <= 0); completeness of the check (stale only if really "
             "invalidated) is covered by the correspondence only; int64 overflow not modelled."),
    "design_ref": "DESIGN.md §6 C24",
}
