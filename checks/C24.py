"""C24 — the API points cache never serves rows older than an invalidation (DESIGN §6 C24)."""
HARNESS = "./cmd/verif-c24"
DRIVER = "drv_c24"


def gen(c, binary):
    """SH/Gen/C24.lean: invalidateFrom, invalidateLinger, maxEvictionSampleSize, steps as the compiler sees them"""
    rc, out = c.go_run(binary, ["-mode=gen"])
    ok = rc == 0 and "namespace SH.Gen.C24" in out and out.rstrip().endswith("end SH.Gen.C24")
    c.oblige("regenerate lean/SH/Gen/C24.lean from /repo (cache constants)", ok, out, kind="tie")
    if ok:
        c.gen("C24", out)
    else:
        c.broken.append("verif-c24 -mode=gen failed:\n" + out[-1500:])
    return ok


def run(c):
    c.rule = ("random histories of get / invalidate / clock jumps on the REAL pointsCache with an injected scripted clock "
              "(every now() reading is an input, monotone in ~86% of the cases) and a recording loader that also runs "
              "concurrent invalidate/get calls while a load is in flight; ranges are built around the mutable edge "
              "(now-48h), hour/minute boundaries and the 15 s linger; 4% of the cases use >100 keys and >100 invalidated "
              "seconds so that the sampled eviction / gc loops are partial. One model op per critical section. "
              "non-trivial = a cached range inside the mutable window was both re-validated (served with an invalidated "
              "second in range) and found stale (reloaded), or an eviction / sampled gc happened; distinct by op-sequence hash")
    c.assumptions += [
        "one model step = one critical section under pointsCache.cacheMu (sync.RWMutex and atomic.Int64 trusted); "
        "get() is two steps because the loader runs without the lock",
        "Go map iteration order is an input: the harness observes which keys evictLocked / invalidateLocked removed and the "
        "model checks that the real loops can make that choice (evictLegal / gcLegal)",
        "int64 wrap-around is not modelled (times are Unix nanoseconds of this century)",
        "cache keys are non-empty strings (getOrBuildCacheKey never returns an empty key), approxMaxSize >= 1",
    ]
    binary = c.go_build(HARNESS)
    if binary:
        gen(c, binary)
    c.prove("SH.Props.C24", extra_files=["SH/Model/PCache.lean", "SH/Gen/C24.lean", "SH/Lemmas/PCacheBase.lean",
                                     "SH/Lemmas/PCacheExact.lean", "SH/Lemmas/PCacheEvict.lean", "SH/Lemmas/PCacheInt64.lean"])
    drv = c.driver(DRIVER)
    if binary and drv:
        # thorough: 5 runs of 4000 histories with seeds derived from VERIF_SEED (bounds the size of one output stream)
        runs = c.n(1, 5)
        for k in range(runs):
            rc, out = c.go_run(binary, [f"-n={c.n(1500, 4000)}", f"-seed={c.seed + 7919 * k}"])
            c.harness_ok(rc, out, "verif-c24")
            c.correspond(out, drv)
            del out

    def search():
        if not binary:
            return
        for k in range(1, 6):
            rc, out = c.go_run(binary, [f"-n={c.n(6000, 40000)}", f"-seed={c.seed + 1000 * k}"])
            c.collect(out, label="")
            if c.oracle:
                return
    return search


META = {
    "level": "proof",
    "technique": ("Lean 4 theorems over an executable model of pcache.go (induction over all histories of lookup/store/invalidate "
                  "critical sections with clocks as inputs) + step-by-step differential correspondence with the real pointsCache"),
    "text": ("Kernel-checked theorems for EVERY history of loadCached / store / invalidate critical sections (all keys, ranges, "
             "clock readings, eviction choices, gc deletions, utcOffsets). (1) Two-sided freshness (stale_iff / served_iff): a cached "
             "range is reported stale, hence reloaded, IF AND ONLY IF it does not end before the mutable window and some second of "
             "the scanned range [max(from, edge second), to] was invalidated in this history at a clock tAt with loadedAt <= tAt + "
             "linger; otherwise it is served as stored. Soundness rests on checkLevels_sound + run_good (coarse maps dominate the "
             "second map; the second map remembers every invalidation not older than the gc edge), completeness on "
             "checkLevels_exact + run_tight (a coarse key is consulted only when its whole bucket lies inside the range and every "
             "coarse entry is witnessed by a second of its bucket; every second-map entry is an invalidation of the history): the "
             "hierarchy never over-invalidates, not even by coarse-bucket rounding. served_fresh, invalidated_is_reloaded, "
             "immutable_served, served_rows_stored_by_load as before. (2) gc_never_changes_answers: whatever invalidateLocked "
             "deletes, no later lookup (clock not behind the gc call) changes its answer. (3) Size: exact accounting in every "
             "reachable state (run_exact: c.size = sum of rowsSize+len(rows)), the `k == \"\"` corner is unreachable for "
             "approxMaxSize > 0 (needEvict_nonempty, evictLoop_no_hang), the eviction loop terminates within len(cache) rounds under "
             "ANY legal choice sequence (evictLoop_terminates, legal_pick_exists), hence size_bounded has no loop hypothesis; "
             "cache_within_bound / cache_content_bounded bound accounted size and real content for every history. (4) "
             "int64_preconditions / size_in_int64: for clocks in [0,2^62] ns, seconds within +-2^40, utcOffset within +-2^31 every "
             "int64 / time.Time operation of pcache.go is overflow-free and equals the model's Int arithmetic (lod.go mathDiv with "
             "truncating division = floor; time.Unix(sec,0).Before(T) = nanosecond comparison). The model is tied to pcache.go by "
             "replaying each generated history section by section on the real pointsCache and on the compiled Lean model and "
             "diffing hits/misses, every touched entry (lru, rowsSize, ranges with loadedAt/n/generation), size, map sizes and a "
             "final full dump. A direct oracle on the real code replays all invalidations naively per second and flags "
             "stale-served, needless-reload (the converse), served-not-latest-load, immutable-reloaded, size-bound, size-accounting."),
    "note": ("Trusted: Lean kernel; the model<->code correspondence on generated histories (quick 1500, thorough 5 x 4000 cases); "
             "sync.RWMutex/atomic semantics (one critical section = one model step); Go map order treated as an input whose "
             "legality the model checks (theorems about safety hold for illegal choices too). Clock hypothesis of stale_iff / "
             "served_fresh: the lookup's clock is not behind the clock of an earlier invalidate call; clock_hypothesis_needed and "
             "the gc example show by decide that the code serves stale rows when a wall clock steps back by hours - inherent to "
             "the design, not reported as a defect. The scanned range includes the second that contains the edge even when the "
             "edge has a sub-second part (clampFrom), stated exactly in stale_iff. approxMaxSize <= 0 makes get spin forever "
             "(model: EvictFlag.hang, decide example) - configuration corner outside the property. The int64 statement is a "
             "precondition lemma about each arithmetic expression, not a second bit-precise model of the whole cache."),
    "design_ref": "DESIGN.md §6 C24",
}
