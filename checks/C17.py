"""C17 — binlog-backed SQLite engine stays consistent with its binlog across crashes (DESIGN §6 C17)."""
import os
import shutil

HARNESS = "./cmd/verif-c17"
DRIVER = "drv_c17"


def _clean():
    # the harness removes its own per-case directories; drop the (then empty) roots, never somebody else's files
    for d in ("/tmp/C17", "/dev/shm/C17"):
        try:
            os.rmdir(d)
        except OSError:
            pass


def run(c):
    c.rule = ("step mode: random op sequences (8-28 ops: do ok/failing callback/failing SQL/failing append/context cancelled or deadline "
              "expired from inside the callback after its SQL ran/read (parked reads remember the offset row they read); the first modifying "
              "statement of every callback has one of five shapes: plain INSERT, CTE-prefixed WITH..INSERT, upsert, REPLACE, DDL via ExecUnsafe, must-commit-now write, "
              "binlog Commit at a random record boundary incl. stale ones, commit timer incl. a commit parked until the binlog catches up, "
              "real-time `tick` (two thirds of the NoWaitCommit-master cases run with CommitEvery=3ms: the engine's own timer may fire; there "
              "must be none in that mode), replica Apply/Skip/hold, explicit reader View, graceful close, crash image at a random durable boundary + replay with random "
              "chunking incl. payloads cut at arbitrary 4-byte positions of the stream (partial records carried over, engine answers "
              "NotEnoughData/UnknownMagic), intermediate and missing final Commit) on one real Engine per case (WaitCommit master / NoWaitCommit master / replica) "
              "against a scripted binlog; every op is one real call, state dumped after each op. "
              "kill mode: a child process runs 3 writers + 2 readers on a real engine + real on-disk fsbinlog and is SIGKILLed at a seeded "
              "instant 2-3 times per directory. non-trivial = case with a crash/restart, a commit parked behind the binlog, a replica queue, "
              "or a kill that left binlog events to replay; distinct by op-sequence hash")
    c.assumptions += [
        "SQLite is two values (committed state / state inside the open write transaction); its atomic commit, savepoints and crash recovery are trusted",
        "the linked SQLite is the stock amalgamation: PRAGMA journal_mode=WAL2 is not available there, the engine runs with a rollback journal",
        "one model step = one critical section (RW connection mutex / binlog event reactor); the Go runtime, sync.Mutex and channels are trusted",
        "fsbinlog announces Commit(offset) only after fsync of that prefix (property C18); process kill does not tear a completed write(2)",
        "kill instants are sampled, not enumerated; power-loss (torn pages, reordered writes) is not exercised",
        "step mode keeps its scratch database on tmpfs (crash images are taken in-process, nothing there depends on fsync)",
    ]
    c.prove("SH.Props.C17", extra_files=["SH/Model/Engine.lean", "SH/Lemmas/Engine.lean", "SH/Lemmas/EngineChain.lean", "SH/Lemmas/EngineWaitQ.lean"])
    drv = c.driver(DRIVER)
    binary = c.go_build(HARNESS)
    try:
        if binary and drv:
            rc, out = c.go_run(binary, [f"-n={c.n(300, 6000)}"], timeout=2400)
            c.harness_ok(rc, out, "verif-c17 (step mode)")
            c.correspond(out, drv, label="")
            rc, out = c.go_run(binary, ["-mode=crash", f"-n={c.n(6, 80)}"], timeout=2400)
            c.harness_ok(rc, out, "verif-c17 (kill mode)")
            c.correspond(out, drv, label="crash")
    finally:
        _clean()

    def search():
        if not binary:
            return
        try:
            for k in range(1, 6):
                rc, out = c.go_run(binary, [f"-n={c.n(600, 3000)}", f"-seed={c.seed + 1000 * k}"], timeout=2400)
                c.collect(out, label="")
                if c.oracle:
                    return
                rc, out = c.go_run(binary, ["-mode=crash", f"-n={c.n(10, 40)}", f"-seed={c.seed + 1000 * k}"], timeout=2400)
                c.collect(out, label="crash")
                if c.oracle:
                    return
        finally:
            _clean()
    return search


META = {
    "level": "proof",
    "technique": ("Lean 4 invariant proof over an executable state-machine model of the engine (induction over all op sequences incl. crash as an op "
                  "with the surviving binlog length as parameter) + op-by-op differential correspondence with the real Engine on a scripted binlog "
                  "+ SIGKILL runs of a child process on a real engine with the real on-disk fsbinlog"),
    "text": ("Kernel-checked for every history (writes ok / failing, must-commit-now writes, binlog commits at any offset, commit-timer ticks, "
             "reader deliveries, replica appends, close, kills at any moment incl. while a commit is parked, restarts) and for both commit modes "
             "and both roles: db_is_prefix (committed database and open write transaction each equal the application of the binlog prefix their "
             "stored offset marks; committed offset <= fsynced prefix), view_never_ahead_of_binlog, failed_do_leaves_nothing, acked_is_durable / "
             "acked_survives_crash, binlog_contiguous (the model's binlog is laid out back to back and all three offsets are record boundaries), "
             "restart_catches_up in CLOSED FORM (kill keeping the binlog up to any record boundary d between fsynced offset and written length, "
             "restart, the reader re-delivers every record, Commit(d), ready: the database holds exactly the events of the durable binlog in "
             "order, offset row = in-memory offset = d, engine up) with acked_present_after_restart as corollary, and "
             "restart_catches_up_any_chunking (the same after ANY sequence of reader deliveries first: payloads cut anywhere in the byte "
             "stream - the engine consumes the complete leading events and reports how far it got, also payloads with no complete event - "
             "whole-record payloads, skips and periodic Commits in any order; the loop invariant Rd shows no record is lost, duplicated "
             "or reordered, chunk_makes_progress that a payload containing the next event advances), "
             "committed_offset_le_durable (dbCommittedOffset <= binlogDurableOffset in EVERY mode with a binlog, covered by an already "
             "delivered Commit) with nowait_has_no_timer (the CommitEvery timer exists only in WaitCommit mode and waits for the binlog; "
             "timer_without_wait_breaks_invariant is the decide witness for a timer that commits without waiting, seeded change C17-r3-2), "
             "released_only_when_covered (wait queue modelled explicitly: a write entry stands for its own end offset, a read entry for "
             "the offset row it has read; whatever the binlog announces next, every released entry is covered by it - invariant WQ, "
             "parked_calls_context; decide witness release_by_compaction_uncovers_a_read for seeded change C17-r5-1), "
             "failed_callback_any_statement_shape (the savepoint is opened before the first modifying statement of any shape, the shape "
             "is not in the model; decide witness savepoint_only_for_plain_writes_keeps_failed_write for seeded change C17-r6-1), "
             "offset_update_precedes_append (a write whose context dies before the engine's own offset UPDATE fails before anything "
             "reached the binlog; decide witness append_before_offset_update_leaves_record for the swapped order, C17-r5-2), "
             "readers_observe_announced_prefix (trace level: split any schedule at any View: the value the callback observes is the "
             "application of the binlog prefix ending at its offset, that offset is 0 or covered by a Commit already delivered before "
             "that moment - ghost list ann, pinned by ann_records_commits - and the View changes nothing), "
             "apply_skip_branch_unreachable (the offset row never exceeds the in-memory offset, so the 'skip already applied bytes' branch of "
             "binlog_engine.apply is dead under the engine's own invariants), and replica mode as its own instance: replica_db_is_prefix "
             "(trace level: stays a replica, refuses binlog writes, both prefixes, readers never ahead, events parked only while a commit is "
             "awaited and parked events in neither database state), replica_apply_is_parked, replica_commit_flushes (Commit covering the engine "
             "offset COMMITs the pre-queue state then applies the queue in order; a smaller Commit does neither). "
             "The model is tied to internal/sqlite by replaying each generated op sequence on a real Engine (real SQLite, savepoints, commits, "
             "in-process crash images) and on the compiled model and diffing committed state, transaction state, offsets, wait queue and "
             "acknowledgements after every op; the property itself is evaluated directly on the real engine in both modes (oracle signatures "
             "db-not-prefix, db-ahead-of-binlog, tx-not-prefix, acked-not-durable, acked-lost, failed-do-left-db-change, "
             "failed-do-left-binlog-record, read-returned-uncommitted-data, restart-missing-events, view-not-prefix, restart-not-writable, restart-failed, "
             "restart-failed-torn-tail). Known finding restart-failed-torn-tail (no fix applied): a kill inside a large binlog write(2) leaves a "
             "partial record at the end of the last file; fsbinlog's writer then refuses to reopen it and a master engine does not come up until "
             "the file is cut by hand. The model reproduces this (crash with torn=true -> open-error, field down; theorem "
             "torn_tail_restart_fails is the decide witness); the unapplied patch is kept as stepFixed, and "
             "append_behind_torn_tail_loses_acked is the decide witness for the other side of the design space (seeded change C17-r2-2: "
             "accepting the longer file and appending behind the torn bytes makes the next re-read swallow an acknowledged event)."),
    "note": ("Partial: restart is proved for kills that leave no partial record after the last complete one (crash op with torn=false, d a record "
             "boundary); with a torn tail the current code fails to restart (known finding, oracle sig restart-failed-torn-tail; any other "
             "restart failure is sig restart-failed and a VIOLATION), hence engine_up_partial / acked_present_after_restart_partial / "
             "restart_catches_up_partial (arbitrary delivery chunking, conditional on 'reader delivered everything') carry noTorn. The closed "
             "form now covers arbitrary chunking of the delivery (any prefix of cut/whole payloads, skips, commits), completed by "
             "handing over the remaining records; reader-side service-record parsing and the 4-byte alignment of buffers are the "
             "harness' scripted binlog, not modelled byte by byte. Contiguity of record offsets is proved for the model's writer; that the real fsbinlog lays files out that way is "
             "its contract (C18) and is only observed here. SQLite durability/atomic commit, fsync, the Go scheduler and fsbinlog's "
             "fsync-before-Commit are trusted; kill instants are sampled (quick ~15 kills, thorough ~200). The skip branch of apply() is not in "
             "the model because apply_skip_branch_unreachable shows its guard false (tx.off <= dbOffset is also observed on the real engine "
             "after every op). Snapshot meta and the ReadAndExit/CommitOnEachWrite/NoBinlog options are not modelled."),
    "design_ref": "DESIGN.md §6 C17",
}
