"""C28 — PromQL expressions print to text that parses back to the same expression (DESIGN §6 C28)."""
import os

HARNESS = "./cmd/verif-c28"
DRIVER = "drv_c28"
CORPUS = os.path.join(os.path.dirname(os.path.dirname(os.path.abspath(__file__))), "corpus", "C28", "sources.txt")


def gen(c, binary):
    """lean/SH/Gen/C28.lean: precedence table and keyword lists of parse.y, lexer keyword table, function names —
    as the harness compiled against /repo's working tree sees them"""
    rc, out = c.go_run(binary, ["-mode=gen"])
    ok = rc == 0 and "namespace SH.Gen.C28" in out and "end SH.Gen.C28" in out
    c.oblige("regenerate lean/SH/Gen/C28.lean from parse.y / lex.go / functions.go", ok, out[-2000:], kind="tie")
    if ok:
        c.gen("C28", out)
    else:
        c.broken.append("verif-c28 -mode=gen failed:\n" + out[-1500:])
    return ok


def run(c):
    c.rule = ("each case is one source text: 70% from a typed generator that writes surface syntax directly (depth <= 6, every "
              "operator, aggregate and function, matching modifiers, @/offset modifiers, subqueries, StatsHouse extensions "
              "`offset [..]`, `@what=`, `tag:$var`, keywords as metric and label names, varied spacing/case/quoting, string literals / "
              "matcher values / function string arguments in all three quote styles with control bytes, DEL, non-printable and "
              "astral runes and invalid UTF-8 given raw at the start, middle and END of the string (what %q prints as a numeric escape), "
              "un-parenthesised operator chains), 15% a valid source with 1-2 token mutations, 15% arbitrary strings "
              "(random bytes, PromQL alphabet, token soup, deep nesting, unterminated constructs). Ops: real ParseExpr on the "
              "text vs model parser on its tokens; real String() (lexed) vs model printer; real ParseExpr on the printed text "
              "vs model. non-trivial = accepted AND (a binary/unary directly under a binary/unary, i.e. precedence decided "
              "the grouping, or a modifier, subquery, matching clause, StatsHouse extension, or a string value whose last character "
              "the printer escapes); rejected and accepted sources are interleaved in one process, so the pooled parser is "
              "reused after failed parses; distinct by op-sequence hash")
    c.assumptions += [
        "lexing is not modelled: the model works on the token sequence the real lexer produced (number values, unquoted strings, "
        "durations in seconds, regexp validity are carried in the tokens); the lexical round trip of numbers/strings/durations "
        "is checked on the real code by the oracle and the print correspondence only",
        "the order in which the printer emits label matchers (sort.Strings over rendered text) is not modelled; trees are compared "
        "with matchers as a sorted multiset, the round-trip oracle compares them as a set",
        "float64 values are compared through Go's shortest decimal rendering (injective); all NaNs are identified",
    ]
    binary = c.go_build(HARNESS)
    if binary:
        gen(c, binary)
    c.prove("SH.Props.C28", extra_files=["SH/Model/PromSyntax.lean", "SH/Lemmas/PromSyntaxSound.lean", "SH/Gen/C28.lean"])
    drv = c.driver(DRIVER)
    if binary and drv:
        rc, out = c.go_run(binary, ["-mode=corpus", f"-arg={CORPUS}"])
        c.harness_ok(rc, out, "verif-c28 corpus")
        c.correspond(out, drv, label="corpus")
        rc, out = c.go_run(binary, [f"-n={c.n(6000, 150000)}"])
        c.harness_ok(rc, out, "verif-c28")
        c.correspond(out, drv)

    def search():
        if not binary:
            return
        for k in range(1, 6):
            rc, out = c.go_run(binary, [f"-n={c.n(20000, 100000)}", f"-seed={c.seed + 1000 * k}"])
            c.collect(out, label="")
            if c.oracle:
                return
    return search


REPLAY_ARGS = [f"-arg={CORPUS}"]   # only read in -mode=corpus (label of the corpus run)

META = {
    "level": "proof",
    "technique": ("Lean 4 theorems over an executable token-level model of the PromQL printer and a reference precedence-climbing "
                  "parser (precedence table, keyword lists, function names regenerated from parse.y / lex.go / functions.go) + "
                  "differential correspondence of both with the real lexer / ParseExpr / String() + direct round-trip and no-panic "
                  "oracle on the real code"),
    "text": ("Kernel-checked: for every well-formed syntax tree (the shapes the parser produces: operands of an operator fit its "
             "precedence/associativity, signs folded into number literals, subquery operands, argument counts, label/keyword lexing) "
             "parsing the printed token sequence yields the same tree up to the duplicated metric-name matcher (parse_print, with "
             "normSel_mem/normSel_fields showing the matcher SET and everything else is kept), with the default parser fuel proved "
             "sufficient; `decide` witnesses show the printer before the fix violates it in six ways and that a 0-second range is "
             "unprintable. The model parser and printer are tied to the code by replaying, per generated source, the real ParseExpr "
             "(accept/reject and tree) and the real String() (token sequence) against the compiled model, and the model's `wf` is "
             "evaluated on every tree the parser returns; arbitrary strings are fed to ParseExpr under recover."),
    "note": ("Partial: (1) 'every tree the parser accepts is well-formed' is checked on every generated case (driver line `wf`), not "
             "proved; (2) lexing is not modelled - the lexical round trip of numbers, strings, durations and the matcher order are "
             "correspondence/oracle only, `@` timestamps are rendered exactly only for |ms| < 2^52; (3) 'never panics' is the direct "
             "oracle only (escaping panics and runtime panics recovered inside ParseExpr). Trusted: Lean kernel; the reading of "
             "'equivalent tree' (position fields ignored, matchers as a set, nil = empty list, NaNs identified); the correspondence "
             "on generated inputs (quick 6000, thorough 150000 sources + corpus). The unchanged tree violates the property "
             "(offsets and subquery ranges printed without unit, `offset [..]` list not printed, group_left/right dropped without "
             "matching labels, `+Inf`, `{}`, `{__name__=\"\"}`): fixes/C28-printer-roundtrip.diff makes the check green. Known "
             "finding zero-duration: a range or list offset below 500ms is stored as 0 seconds, which no duration literal denotes."),
    "design_ref": "DESIGN.md §6 C28",
}
