"""C28 — PromQL expressions print to text that parses back to the same expression (DESIGN §6 C28)."""
import os

HARNESS = "./cmd/verif-c28"
DRIVER = "drv_c28"
CORPUS = os.path.join(os.path.dirname(os.path.dirname(os.path.abspath(__file__))), "corpus", "C28", "sources.txt")


def gen(c, binary):
    """lean/SH/Gen/C28.lean: precedence table and keyword lists of parse.y, lexer keyword table, function names —
    as the harness compiled against /repo's working tree sees them"""
    rc, out = c.go_run(binary, ["-mode=gen"])
    ok = rc == 0 and "namespace SH.Gen.C28" in out and "end SH.Gen.C28" in out
    c.oblige("regenerate lean/SH/Gen/C28.lean from parse.y / lex.go / functions.go", ok, out[-2000:], kind="tie")
    if ok:
        c.gen("C28", out)
    else:
        c.broken.append("verif-c28 -mode=gen failed:\n" + out[-1500:])
    return ok


def run(c):
    c.rule = ("each case is one source text: 70% from a typed generator that writes surface syntax directly (depth <= 6, every "
              "operator, aggregate and function, matching modifiers, @/offset modifiers, subqueries, StatsHouse extensions "
              "`offset [..]`, `@what=`, `tag:$var`, `@` timestamps with 0-6 random fraction digits, keywords as metric and label names, varied spacing/case/quoting, string literals / "
              "matcher values / function string arguments in all three quote styles with control bytes, DEL, non-printable and "
              "astral runes and invalid UTF-8 given raw at the start, middle and END of the string (what %q prints as a numeric escape), "
              "un-parenthesised operator chains), 15% a valid source with 1-2 token mutations, 15% arbitrary strings "
              "(random bytes, PromQL alphabet, token soup, deep nesting, unterminated constructs). Ops: real ParseExpr on the "
              "text vs model parser on its tokens; real String() (lexed) vs model printer; real ParseExpr on the printed text "
              "vs model; real lexer on every string literal (and truncations), every number, duration and word token vs the "
              "byte-level lexer models, parseDuration on every duration literal, `%ds` on every printed duration. non-trivial = accepted AND (a binary/unary directly under a binary/unary, i.e. precedence decided "
              "the grouping, or a modifier, subquery, matching clause, StatsHouse extension, or a string value whose last character "
              "the printer escapes); rejected and accepted sources are interleaved in one process, so the pooled parser is "
              "reused after failed parses; distinct by op-sequence hash")
    c.assumptions += [
        "lexing is not modelled: the model works on the token sequence the real lexer produced (number values, unquoted strings, "
        "durations in seconds, regexp validity are carried in the tokens); the lexical round trip of numbers/strings/durations "
        "is checked on the real code by the oracle and the print correspondence only",
        "the order in which the printer emits label matchers (sort.Strings over rendered text) is not modelled; trees are compared "
        "with matchers as a sorted multiset, the round-trip oracle compares them as a set",
        "float64 values are compared through Go's shortest decimal rendering (injective); all NaNs are identified",
    ]
    binary = c.go_build(HARNESS)
    if binary:
        gen(c, binary)
    c.prove("SH.Props.C28", extra_files=["SH/Model/PromSyntax.lean", "SH/Model/PromLex.lean", "SH/Lemmas/PromSyntaxSound.lean", "SH/Lemmas/PromLexNum.lean", "SH/Lemmas/PromLexStr.lean", "SH/Lemmas/PromLexAllSteps.lean", "SH/Lemmas/PromLexChain.lean", "SH/Lemmas/PromLexFrag.lean", "SH/Model/PromLexAll.lean", "SH/Gen/C28.lean"])
    drv = c.driver(DRIVER)
    if binary and drv:
        rc, out = c.go_run(binary, ["-mode=corpus", f"-arg={CORPUS}"])
        c.harness_ok(rc, out, "verif-c28 corpus")
        c.correspond(out, drv, label="corpus")
        rc, out = c.go_run(binary, [f"-n={c.n(6000, 150000)}"])
        c.harness_ok(rc, out, "verif-c28")
        c.correspond(out, drv)
    if binary and c.tier == "thorough":
        # purity / reentrancy of String() once more under the Go race detector: a printer that writes to the tree, even
        # transiently, is a data race between the printing goroutines (exit status 66, "WARNING: DATA RACE")
        rbin = c.go_build(HARNESS, name="verif-c28-race", race=True)
        if rbin:
            rc, out = c.go_run(rbin, ["-mode=reentrancy", "-n=20000"])
            c.harness_ok(rc, out, "verif-c28 -race (String() must not write to the tree)")
            c.collect(out, label="reentrancy")

    def search():
        if not binary:
            return
        for k in range(1, 6):
            rc, out = c.go_run(binary, [f"-n={c.n(20000, 100000)}", f"-seed={c.seed + 1000 * k}"])
            c.collect(out, label="")
            if c.oracle:
                return
    return search


REPLAY_ARGS = [f"-arg={CORPUS}"]   # only read in -mode=corpus (label of the corpus run)

META = {
    "level": "proof",
    "technique": ("Lean 4 theorems over an executable token-level model of the PromQL printer and a reference precedence-climbing "
                  "parser (precedence table, keyword lists, function names regenerated from parse.y / lex.go / functions.go), a "
                  "byte-level model of string-literal lexing, + differential correspondence of all of them with the real lexer / "
                  "ParseExpr / String() + direct round-trip and no-panic oracle on the real code"),
    "text": ("Kernel-checked, about the model: (1) accepted_roundtrip - for EVERY token stream the lexer can produce (tokOk: word "
             "kinds agree with the lexer's classification; no duration token of 0 or of more than 9223372036 seconds) and every "
             "tree the parser accepts on it, parsing the printed token sequence yields the same tree up to the duplicated "
             "metric-name matcher; it combines parse_print (every well-formed tree round-trips, default fuel proved sufficient) with "
             "Lemmas/PromSyntaxSound.parse_wf (every tree the parser returns is well-formed). zero_duration_needed and "
             "duration_out_of_range_needed show the two exclusions are necessary. (2) norm_norm, print_norm, print_parse_print, "
             "roundtrip_fixpoint: norm is idempotent, invisible to the printer, one round trip reaches a fixed point. (3) lexical "
             "layer, byte level (Model/PromLex, Lemmas/PromLexNum): duration_literal_roundtrip - the printed `<n>s` is cut as one "
             "DURATION token by lexNumberOrDuration and by lexDuration and parseDuration (model.ParseDuration + zero test + "
             "rounding) gives n back, for every 1 <= n <= 9223372036, via a digit-list round trip (natDigits_spec); "
             "duration_bounds_unprintable - n = 0 and n = 9223372037 have no literal although `0s400ms` / `9223372036s800ms` "
             "parse to them; number_literal_roundtrip - scanNumber consumes exactly any text of the shapes fmt.Sprint(float64) "
             "writes (digits, .digits, e+-dd) and the token's value is x under the explicit hypothesis number(format x) = x; "
             "inf_nan_tokens - Inf/NaN are words the keyword table makes NUMBER tokens; at_timestamp_roundtrip - the `%.3f` seconds "
             "the printer writes for k ms are cut as one NUMBER token and the decimal -> nearest-millisecond conversion gives "
             "exactly k, for every k, hypothesis-free (tie: op atms compares that conversion with "
             "timestamp.FromFloatSeconds(number(text)) on every `@` literal that is not exactly half a millisecond); lexString_renderQ / string_token_roundtrip "
             "- a %q body is scanned to exactly its closing quote, value back under the explicit hypothesis unquote(quote v) = v; "
             "extra_rune_breaks_last_escape is the seeded lexer bug as a `decide` witness. (4) the whole lexer: Model/PromLexAll.lexAll "
             "models the complete state machine of lex.go (blanks, comments, operators, brace/bracket modes, paren depth, the "
             "literal scanners); lexer_steps + Lemmas/PromLexAllSteps lift every per-token theorem to one step of that machine "
             "(right token, right successor state, rest of the text) for each token class the printer writes, and "
             "lex_range_suffix composes them across the `[`..`]` mode; Lemmas/PromLexChain: a derivation of justified steps through a "
             "text determines lexAll (Lexes.lexAll), and accepted_roundtrip_text_fragment_partial is the first character-level "
             "round trip - for every identifier, range and offset the text `name[<n>s] offset <m>s` is lexed to exactly its six "
             "tokens, the duration texts denote n and m, and the token-level round trip holds; lexAll_printText_fragment "
             "(Lemmas/PromLexFrag) extends the character-level lexing by induction to a recursive fragment: names, range "
             "selectors, parentheses, one-argument calls and (round 7) the twelve binary operators written ` op ` (+ - * / % ^ == != <= >= < >; step_bop). `decide` witnesses show the printer "
             "before the fix violated the property in six ways. Ties: per generated source the real ParseExpr (accept/reject, "
             "tree), the real String() (token sequence), and the real lexer on every string, number, duration and word token "
             "(ops lexstr, lexnum, lexdur, lexword), the real lexer on the WHOLE source and the WHOLE printed text (op lexall), parseDuration on every duration literal (pdur), `%ds` (durtext), `@` "
             "seconds -> ms (atms) are replayed "
             "on the compiled models; the hypotheses tokOk (line `lex`) and wf (line `wf`) are evaluated by the driver on every "
             "real token stream / returned tree."),
    "note": ("Purity / reentrancy of String(): the model's printer is a function Expr -> tokens, pure by construction; that the real "
             "String() is one too (never writes to the tree, not even transiently) is a correspondence obligation, discharged by "
             "the oracle printer-mutates-tree / print-not-reentrant (4 goroutines printing the same tree + a watcher, for every "
             "accepted tree with a range selector carrying @/offset modifiers) and, in the thorough tier, by the Go race detector. "
             "Partial: the two library contracts strconv.Quote/strutil.Unquote and fmt.Sprint(float64)/number (ParseInt, "
             "ParseFloat) are explicit hypotheses of string_token_roundtrip / number_literal_roundtrip, discharged by the "
             "round-trip oracle only; the lexical theorems are per token class and per lexer step: a character-level model of "
             "the printer's spacing and the induction chaining the steps over a whole printed expression (lexAll(printText e) = "
             "tokens of printExpr e) are proved only for the family `name[<n>s] offset <m>s` (lexAll_range_offset) and for the "
             "recursive fragment of lexAll_printText_fragment (names, name[<n>s], parentheses, one-argument calls, the twelve arithmetic/comparison binary operators, unsigned number literals); "
             "matchers, several arguments, @/offset inside the fragment, aggregations, the set operators and the bool/on/ignoring/group modifiers, string "
             "operands and unary signs are NOT in it, nor is the bridge from those raw tokens to parse or a correspondence op tying "
             "printText to String(), so accepted_roundtrip is not yet one character-level statement for all expressions - on every "
             "generated case that composition is checked by the correspondence (print + lexall); parseDuration's float rounding is modelled exactly, which agrees with the code below "
             "2^59 ns (18 years) - `100y500ms` rounds down in the code; `@` timestamps rendered exactly for |ms| < 2^52; the order "
             "in which matchers are printed is not modelled; 'never panics' is the direct oracle only. Trusted: Lean kernel; the "
             "reading of 'equivalent tree'; the correspondence on generated inputs (quick 6000, thorough 150000 sources + corpus). "
             "Known findings (rounding in parser.parseDuration after its validity tests): zero-duration (a range or list offset "
             "below 500ms becomes 0 seconds) and duration-out-of-range (a duration in [9223372036.5s, 2^63ns) becomes 9223372037 "
             "seconds); neither value has a literal. The printer defects found in round 1 are fixed in /repo."),
    "design_ref": "DESIGN.md §6 C28",
}
