"""C08 — agent shard places every accepted event in exactly one correct send second (DESIGN §6 C08)."""
HARNESS = "./cmd/verif-c08"
DRIVER = "drv_c08"


def gen(c, binary):
    """regenerate lean/SH/Gen/C08.lean (superQueueLen, superQueueFutureSlots, the gap literal, AgentWindow, the status
    metric's resolution, MaxTags, the image of AllowedResolution) from the values the compiler gives them in /repo"""
    rc, out = c.go_run(binary, ["-mode=gen"])
    ok = rc == 0 and "namespace SH.Gen.C08" in out and out.rstrip().endswith("end SH.Gen.C08")
    c.oblige("regenerate SH/Gen/C08.lean from /repo (verif-c08 -mode=gen)", ok, out, kind="tie")
    if ok:
        c.gen("C08", out)
    else:
        c.broken.append("verif-c08 -mode=gen failed:\n" + out[-2000:])
    return ok


def run(c):
    c.rule = ("one case = one clock script on a real agent.Shard: 40-260 ops mixing events through all 7 Shard entry points and "
              "Agent.Map+ApplyMetric driven like the receiver (ONE long-living scratch per case, metrics of every sharding strategy incl. tags_hash, "
              "the same logical row repeated with permuted tags / warmer mapping cache / other scratch leftovers / with and without a scratch buffer (internal/stats path), "
              "Agent.updateRemoteConfig with remote descriptions setting both / one / none of the hardware resolutions before events of real builtin fast and slow hardware metrics; timestamps 0, around CurrentTime/SendTime, far past/future, uint32 edge; all 12 allowed "
              "resolutions; nil/normal/hardware metric infos; dropIfBeforeTimestamp), flushBuckets(now) with 100 ms ticks, "
              "pauses, jumps ahead (incl. >125 s and whole laps) and back, a consumer that sometimes stalls, "
              "StopReceivingIncomingData, final FlushAllData; every 4th case runs on an agent with TWO shards: counter/values/unique events through the real "
              "Agent.Map+ApplyMetric for metrics with ShardFixedKey 1|2 and ShardFixedKey2 none/other shard/same shard/non-existing shard and "
              "ShardFixedKey2Timestamp before/around/after the event time, both shards flushed and drained, exactly-once oracle per shard; plus pure mapAllTags/OriginalMarshalAppend ops under shuffled "
              "tag order and partial mapping caches. non-trivial = SendTime jumped ahead whole laps while an accepted event "
              "was waiting in the ring, or a low-resolution (res > 1) event was late (slot < SendTime, re-aligned); distinct by op-sequence hash")
    c.assumptions += [
        "timestamps are Nat in the model: uint32 wrap-around (CurrentTime < 125 or > 2^32-256) is outside the model; generated clocks stay in [10^6, 2.1*10^9]",
        "xxh3 of the marshalled original tag values is an input of the model (the harness passes the observed hash); the marshalling itself is modelled and compared byte for byte",
        "one model step = one critical section under Shard.mu; the preprocess channel (capacity 1) is the harness; back-pressure = the len(BucketsToPreprocess) != 0 branch",
        "Go map iteration order inside a bucket is canonicalised by sorting; MultiItem merging of equal keys is observed through item counters (ghost ids make event keys unique)",
        "raw tags, the host tag and invalid tags of mapAllTags are not modelled (C11/C12)",
    ]
    binary = c.go_build(HARNESS)
    if binary:
        gen(c, binary)
    c.prove("SH.Props.C08", extra_files=["SH/Model/AgentQueue.lean", "SH/Gen/C08.lean"])
    drv = c.driver(DRIVER)
    if binary and drv:
        rc, out = c.go_run(binary, [f"-n={c.n(500, 12000)}"], timeout=2400)
        c.harness_ok(rc, out, "verif-c08")
        c.correspond(out, drv, timeout=2400)
        if c.tier == "thorough":
            for k in range(1, 5):
                rc, out = c.go_run(binary, ["-n=4000", f"-seed={c.seed * 7919 + k}"], timeout=2400)
                c.harness_ok(rc, out, "verif-c08")
                c.correspond(out, drv, timeout=2400)

    def search():
        if not binary:
            return
        for k in range(1, 6):
            rc, out = c.go_run(binary, [f"-n={c.n(2000, 10000)}", f"-seed={c.seed + 1000 * k}"], timeout=2400)
            c.collect(out, label="")
            if c.oracle:
                return
    return search


META = {
    "level": "proof",
    "technique": ("Lean 4 theorems over an executable state-machine model of the shard ring (induction over arbitrary op lists: events, "
                  "flushes under arbitrary clocks, stalls, stop, final flush) + op-by-op differential correspondence with the real "
                  "agent.Shard / Agent.ApplyMetric / mapAllTags + direct exactly-once oracle on BucketsToPreprocess"),
    "text": ("Kernel-checked for every history (any list of events through the 7 Shard entry points / ApplyMetric, flushBuckets calls with "
             "arbitrary clock values incl. pauses and jumps ahead/back, consumer stalls, stop, FlushAllData): the ids in ring cells and pushed "
             "buckets are always a duplicate-free permutation of the accepted ids (exactly_once), after FlushAllData the ring is empty and each "
             "accepted id is in the pushed buckets exactly once (delivered_exactly_once); every delivered event sits in a bucket whose second is "
             ">= its clamped timestamp, its stored timestamp is the clamped one rounded down to the resolution, and the bucket second equals the "
             "slot chosen at placement plus 128 s per jump-ahead lap (delivered_not_early, from slot_in_window / accepted_slot_within_ring — the ring-capacity arithmetic over the regenerated constants, with the literal 119 as decide witness of a wrap: send <= slot < send+superQueueLen "
             "whenever gap <= 0 and the resolution is allowed; sharpness witnesses show gap=1 or one more future slot would wrap the ring). "
             "placement_deterministic / same_second_on_all_agents: not late and not future-clamped => slot and stored timestamp are functions of "
             "(resolution, hash, timestamp) only; ov_cache_independent / ov_order_independent / resolution_hash_input_independent: the hashed bytes "
             "do not depend on the mapping cache, (for distinct tag names) tag order, or the content of the caller's scratch buffer (resolution_hash_ignores_scratch_prefix, resolution_hash_same_on_all_agents). drop_only_when: stop, gap > 0, or before the secondary "
             "shard's start. Two-shard routing of ApplyMetric (am2Step: primary always with dropIfBeforeTimestamp 0, secondary iff configured with its start, all three "
             "event kinds): run2_shard projects every two-shard history onto single-shard histories, so two_shard_exactly_once / two_shard_delivered hold per shard; "
             "primary_independent_of_secondary and primary_drop_only_gap_or_stop: the primary's state and acceptance do not depend on ShardFixedKey2/its timestamp; "
             "secondary_drop_only_when, unconfigured_shard_untouched. The model is tied to /repo by replaying every generated script op by op on a real Shard (cell index, stored "
             "timestamp, gap/sendTime returned by flushBuckets, CurrentTime/SendTime, channel length, content of every pushed bucket incl. "
             "ingestion-status counters, marshalled OriginalTagValues and Key tags) and by regenerating the constants from the compiled code."),
    "note": ("Trusted: Lean kernel; the model<->code correspondence on generated scripts (quick 500, thorough 28000 scripts of 40-260 ops); Go mutex semantics "
             "(one critical section = one model step); xxh3 as an uninterpreted input. Modelled not verified: uint32 wrap-around (clocks < 125 s or near 2^32), "
             "resolution 0 or outside format.AllowedResolution (hypothesis OpOk), raw/host/invalid tags in mapAllTags, string-top/sampling/merging inside a bucket "
             "(other properties); the two-shard model has exactly two shards and only valid headers (ingestion-status/warning branches of ApplyMetric with shard2 are not modelled). "
             "Liveness (that a flush eventually happens) is not part of the property: 'delivered' means pushed to BucketsToPreprocess."),
    "design_ref": "DESIGN.md §6 C08",
}
