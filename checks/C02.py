"""C02 — row aggregates survive the agent -> aggregator transfer unchanged (DESIGN §6 C02)."""
HARNESS = "./cmd/verif-c02"
DRIVER = "drv_c02"
NCORPUS = 13  # scripted buckets in cmd/verif-c02 corpus()


def run(c):
    c.rule = ("one case = one BUCKET of 1-6 rows (distinct metrics, or sibling pairs: same metric / timestamp / int tags and the same ordered string-tag values in different positions; rows with no / few / many string tops mixed), all rows pushed through ONE real "
              "Shard.sampleBucket call (StringTopCountSend 3: FinishStringTop folds) and serialised only afterwards, then the decoded bucket is handed to the REAL "
              "Aggregator.handleSendSourceBucket (rpc HandlerContext mock seam; aggregator knows 4 string mappings, agent host mapped or not) and the rows are read "
              "from the real aggregatorBucket; a third of the rows use string-top capacity 3 (MapStringTop resamples / redirects to Tail); per row: random key (tag / string-tag layout incl. index 47, timestamp at every edge of the believe window), "
              "1-6 events (counter / value / histogram / single value with count / unique incl. values whose 32-bit sketch hash is 0 (verified with the real hash); a quarter of the rows through the legacy path MultiValue.ApplyValuesLegacy, half of those with all-identical values; tail or one of 13 string-top keys (positive ints, raw int32 values incl. -1 / MinInt32 / MaxInt32 / negated mapped id, strings incl. a mapped one, a non-normalized key); 6 host "
              "tags; counts 0, total and dyadic multiples) applied through the real data_model API, sent with sf in "
              "{1,2,3,10,3/2,9/4,4,15/2} through the real Shard.sampleBucket (keepF), TL bytes written and read back, merged with "
              "KeyFromStatshouseMultiItem + MergeWithTLMultiItem; non-trivial = row built from >= 2 event kinds or sent in the compact "
               "(min == max) form, or a bucket holding >= 2 rows with string tops; distinct by op-sequence hash; 13 scripted corpus buckets run first (minimised F1 / F12 shapes, shared TopElement slice, resample at capacity, FinishStringTop fold, negative raw int32 top keys, sibling keys, zero-hash unique values, legacy percentile path with all-zero values); every bucket is decoded into ONE reused receive buffer that is overwritten in place before the aggregator rows are read back")
    c.assumptions += [
        "float64 arithmetic is modelled by exact rationals; the generator stays in the exact domain (small dyadic numbers); float32 rounding of centroids is not modelled",
        "hrissan/tdigest is trusted: a digest is modelled as the list of centroids added to it, Centroids() is an input of the model (agent side: compression 2000 so nothing is merged; "
        "aggregator side: compared centroid by centroid when a sufficient no-merge bound holds, otherwise by total weight)",
        "ChUnique sketches are far below the thinning limit (skipDegree 0) and are compared as sets of 32-bit hashes; the hash function and the sketch serialisation are inputs/trusted (C04)",
        "the TL byte codec is exercised (WriteTL1Boxed/ReadTL1Boxed) but not modelled (C14); LZ4 framing and RPC are not on the path",
        "the real handleSendSourceBucket is driven offline (Aggregator struct built as MakeAggregator does, recent window opened by the real advanceRecentBuckets); only user metrics (id > 0) are generated, "
        "so the built-in-metric key rewriting of the handler is not exercised; strings are valid (validateStringTag never drops a row)",
        "the fixed-width fields of Key.MarshalAppend (little-endian words) are compared as numbers, only the string-tag section byte for byte; string tags contain no NUL byte",
        "the sum of squares of rows holding values beyond 2^26 (the zero-hash unique values) is outside the exact float64 domain: not compared; such values are not used in percentile rows (float32 centroids)",
        "random draws are inputs of the model: the max-counter-host choice, and for string tops at capacity WHICH entries a resample evicted / FinishStringTop folded (observed from the Top map before/after; "
        "the fold order is not observable, rows that can fold carry one host tag so that the result does not depend on it; the model validates the necessary conditions of each draw)",
        "mapped string-top keys stay distinct (a string key and the int it maps to would be merged by the aggregator with an unseeded random max-counter host: excluded by hypothesis and by the generator)",
    ]
    c.prove("SH.Props.C02", extra_files=["SH/Model/Transfer.lean", "SH/Lemmas/TransferMap.lean"])
    drv = c.driver(DRIVER)
    binary = c.go_build(HARNESS)
    if binary and drv:
        # minimised past failures first (F1: counter-only + value event; F12: empty min host next to a tagged max host)
        rc, out = c.go_run(binary, ["-mode=corpus", f"-n={NCORPUS}"])
        c.harness_ok(rc, out, "verif-c02 corpus")
        c.correspond(out, drv, label="corpus")
        rc, out = c.go_run(binary, [f"-n={c.n(1000, 50000)}"], timeout=1500)
        c.harness_ok(rc, out, "verif-c02")
        c.correspond(out, drv)

    def search():
        if not binary:
            return
        for k in range(1, 6):
            rc, out = c.go_run(binary, [f"-n={c.n(20000, 100000)}", f"-seed={c.seed + 1000 * k}"], timeout=1500)
            c.collect(out, label="")
            if c.oracle:
                return
    return search


META = {
    "level": "proof",
    "technique": "Lean 4 theorems over an executable model of MultiValueToTL / MergeWithTL2 / key transport (generic ordered field) + stage-by-stage differential correspondence with the real agent and aggregator code + exact-rational oracle",
    "text": ("Kernel-checked: for every row produced by any sequence of agent operations (counter/value/histogram/single-value/unique events routed by the full "
             "MapStringTop incl. redirect-to-tail and resample rounds at capacity, FinishStringTop; every admissible random draw and fold order), every sample factor >= 1, "
             "every key and every aggregator string-mapping table, the row the aggregator holds after handleSendSourceBucket (key transport + Skeys/host/string-top "
             "mapping glue + MergeWithTLMultiItem) equals the row as sent with count, sum, sum of squares and centroid weights multiplied by sf, the same min/max, hosts "
             "(the sending agent's host for empty, mapped strings as ints), unique set, row identity (Key.MarshalAppend modelled, `marshal_injective`: distinct keys never share a MultiItemMap slot), string-top keys (any int32 incl. negative, any string: `top_key_survives`, no sign hypothesis) and key. Centroids: proved that the list on the wire is the "
             "agent digest's Centroids() with weights*sf and that exactly this list is added to the aggregator digest. The model is tied to the code by replaying each "
             "generated bucket through the real sampleBucket / TL bytes / real handleSendSourceBucket and through the compiled Lean model, diffing the row after every "
             "event, the decoded TL item and the row read from the real aggregatorBucket."),
    "note": ("Model variant .fixed = tree with fixes/C02-compact-sum.diff and fixes/C02-empty-host.diff (both committed in /repo); the pinned-tree behaviour is kept as "
             "variant .repo with `decide` counterexamples. Trusted, not proved: float64/float32 rounding (exact arithmetic instead), hrissan/tdigest internals (what "
             "Centroids() returns on the agent and how the aggregator digest compresses the added list), ChUnique internals and serialisation (sets of hashes at "
             "skipDegree 0; the reported item count IS compared, incl. the special zero item), the TL codec, and the model<->code correspondence on generated buckets. Hypotheses of the headline theorem: normalized event hosts, numbers "
             "inside the aggregator's float32 validators, timestamp inside the believe window (clamps proved separately), mapped string-top keys distinct, the agent host "
             "tag is what getTagUnionBytes returns. Reading: a value without digest counts as the single centroid (min, count); for a percentile row holding several "
             "distinct values but no digest (unique events only) the property defines no centroids - the theorem states what the code does (implicit centroid at min), "
             "the oracle does not judge it (oracle.centroids-unspecified). Not modelled: aggregator-side string-top resampling (capacity 1000 never reached), "
             "built-in-metric key rewriting in the handler, rows dropped for invalid strings."),
    "design_ref": "DESIGN.md §6 C02",
}
