"""C02 — row aggregates survive the agent -> aggregator transfer unchanged (DESIGN §6 C02)."""
HARNESS = "./cmd/verif-c02"
DRIVER = "drv_c02"
NCORPUS = 7  # scripted buckets in cmd/verif-c02 corpus()


def run(c):
    c.rule = ("one case = one BUCKET of 1-6 rows with distinct metrics (rows with no / few / many string tops mixed), all rows pushed through ONE real "
              "Shard.sampleBucket call and serialised only afterwards, then decoded and merged row by row; per row: random key (tag / string-tag layout incl. index 47, timestamp at every edge of the believe window), "
              "1-6 events (counter / value / histogram / single value with count / unique; tail or one of 5 string-top keys; 6 host "
              "tags; counts 0, total and dyadic multiples) applied through the real data_model API, sent with sf in "
              "{1,2,3,10,3/2,9/4,4,15/2} through the real Shard.sampleBucket (keepF), TL bytes written and read back, merged with "
              "KeyFromStatshouseMultiItem + MergeWithTLMultiItem; non-trivial = row built from >= 2 event kinds or sent in the compact "
               "(min == max) form, or a bucket holding >= 2 rows with string tops; distinct by op-sequence hash")
    c.assumptions += [
        "float64 arithmetic is modelled by exact rationals; the generator stays in the exact domain (small dyadic numbers); float32 rounding of centroids is not modelled",
        "hrissan/tdigest is trusted: a digest is modelled as the list of centroids added to it, Centroids() is an input of the model (agent side: compression 2000 so nothing is merged; "
        "aggregator side: compared centroid by centroid when a sufficient no-merge bound holds, otherwise by total weight)",
        "ChUnique sketches are far below the thinning limit (skipDegree 0) and are compared as sets of 32-bit hashes; the hash function and the sketch serialisation are inputs/trusted (C04)",
        "the TL byte codec is exercised (WriteTL1Boxed/ReadTL1Boxed) but not modelled (C14); LZ4 framing and RPC are not on the path",
        "the aggregator handler glue (Skeys -> STags copy, no string mapping known, no built-in metric key rewriting) is replicated in the harness: handleSendSourceBucket needs a full Aggregator + RPC context",
        "random draws (max-counter-host choice) are inputs; string tops stay below capacity (no resampling)",
    ]
    c.prove("SH.Props.C02", extra_files=["SH/Model/Transfer.lean"])
    drv = c.driver(DRIVER)
    binary = c.go_build(HARNESS)
    if binary and drv:
        # minimised past failures first (F1: counter-only + value event; F12: empty min host next to a tagged max host)
        rc, out = c.go_run(binary, ["-mode=corpus", f"-n={NCORPUS}"])
        c.harness_ok(rc, out, "verif-c02 corpus")
        c.correspond(out, drv, label="corpus")
        rc, out = c.go_run(binary, [f"-n={c.n(1000, 50000)}"], timeout=1500)
        c.harness_ok(rc, out, "verif-c02")
        c.correspond(out, drv)

    def search():
        if not binary:
            return
        for k in range(1, 6):
            rc, out = c.go_run(binary, [f"-n={c.n(20000, 100000)}", f"-seed={c.seed + 1000 * k}"], timeout=1500)
            c.collect(out, label="")
            if c.oracle:
                return
    return search


META = {
    "level": "proof",
    "technique": "Lean 4 theorems over an executable model of MultiValueToTL / MergeWithTL2 / key transport (generic ordered field) + stage-by-stage differential correspondence with the real agent and aggregator code + exact-rational oracle",
    "text": ("Kernel-checked: for every row built from any sequence of valid counter/value/histogram/unique events, every sample factor >= 1, every "
             "string-top layout and every key, the aggregator-side row equals the agent-side row with count, sum, sum of squares and centroid weights "
             "multiplied by sf, the same min/max, hosts (the sending agent's host substituted for empty), unique set and key. The model is tied to the "
             "code by replaying each generated row through the real sampleBucket/TL/MergeWithTLMultiItem path and through the compiled Lean model and "
             "diffing the row after every event, the decoded TL item and the aggregator row."),
    "note": ("Theorems are about the tree with fixes/C02-compact-sum.diff and fixes/C02-empty-host.diff applied (model variant .fixed); the pinned-tree "
             "behaviour is kept as variant .repo with `decide` counterexamples. Trusted: Lean kernel, exact arithmetic instead of float64, tdigest and "
             "ChUnique internals, TL codec, the model<->code correspondence on generated rows. Reading: a value without digest counts as the single centroid (min, count); for a percentile row holding several "
             "distinct values but no digest (unique events only) the property defines no centroids - the theorem states what the code does "
             "(implicit centroid at min), the oracle does not judge it (counted as oracle.centroids-unspecified)."),
    "design_ref": "DESIGN.md §6 C02",
}
