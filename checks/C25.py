"""C25 — table queries assemble aligned, unique, ordered rows (DESIGN §6 C25)."""
HARNESS = "./cmd/verif-c25"
DRIVER = "drv_c25"


def run(c):
    c.rule = ("cases 0-3 are the fixed scenarios of the design-round findings; every other case is one generated table request: "
              "1-3 contiguous LODs, 0-5 storage rows per second with tags in 0..3 and string-top values from a 5-string pool, 1-3 handler-whats "
              "(8-18 requested functions give 2-3), row markers copied from storage rows (45%), random (25%) or absent, ascending/descending, "
              "limit 1..6 / total / large, storage answers consistent across functions (75%) or thinned per function, sorted (85%) or shuffled, "
              "clean (92%) or with duplicate keys / ungrouped tags / rows outside their LOD, 1/60 answers are errors; 1-4 direct limitQueries calls "
              "per case plus one getTableFromLODs call. Non-trivial = a marker has the time of a stored row (window boundary inside a time group), "
              "or NaN padding happened with >1 handler-what, or has-more was set with >1 LOD; distinct by op-sequence hash")
    c.assumptions += [
        "loadPoints (ClickHouse + cache) is an input of the model: any list of time groups per (handler-what, LOD), or an error",
        "getHandlerWhat's grouping of the requested functions is an input (the harness passes what the real function returned); value() is not "
        "modelled: the harness requests only functions whose value is one stored field at LOD step = query step = 1 (exact integers)",
        "strings are compared through order-preserving codes of a fixed pool; numeric tag 47 is 0 (SKey comes from the string column)",
        "sort.Sort leaves the order of rows with equal rowRepr unspecified: model and harness order such runs by the full key",
        "limit/has-more/page oracles apply only when every requested function sees the same clean keys (what a GROUP BY returns)",
    ]
    c.prove("SH.Props.C25", extra_files=["SH/Model/Table.lean"])
    drv = c.driver(DRIVER)
    binary = c.go_build(HARNESS)
    if binary and drv:
        rc, out = c.go_run(binary, [f"-n={c.n(3000, 200000)}"])
        c.harness_ok(rc, out, "verif-c25")
        c.correspond(out, drv)

    def search():
        if not binary:
            return
        for k in range(1, 6):
            rc, out = c.go_run(binary, [f"-n={c.n(20000, 100000)}", f"-seed={c.seed + 1000 * k}"])
            c.collect(out, label="")
            if c.oracle:
                return
    return search


META = {
    "level": "proof",
    "technique": ("Lean 4 theorems over an executable model of limitQueries/inRange/lessThan/getTableFromLODs (all storage outputs, LOD splits, "
                  "markers, directions, limits) + differential correspondence with the real functions + direct property oracle on the real results"),
    "text": ("Kernel-checked for every input: limitQueries returns exactly the first `limit` rows of the window in visiting order and has-more "
             "iff the window holds more; every table row lies in the window and in the marker time range; row keys are unique; every row has "
             "one column per requested function with NaN where a function had no value (for duplicate-free answers); the result is ordered by "
             "the visible key in the requested direction; per function the selected rows across LODs are the first `limit` window rows and "
             "has-more is exact. Old-code variants are refuted by `decide` witnesses. The model is tied to /repo by replaying each generated "
             "request on the real limitQueries/getTableFromLODs (stub loadPoints) and on the compiled model and diffing rows, NaN pattern and flag."),
    "note": ("Trusted: Lean kernel; model<->code correspondence on generated requests (quick 3000, thorough 200000); getHandlerWhat, value(), "
             "sort.Sort and Go maps are inputs/trusted. The unchanged tree violates the property (window rows skipped, spurious has-more, "
             "NaN padding per handler-what, shared row-marker tags, index panic for >7 columns): see fixes/C25-*.diff; the model is the fixed code."),
    "design_ref": "DESIGN.md §6 C25",
}
