"""C25 — table queries assemble aligned, unique, ordered rows (DESIGN §6 C25)."""
HARNESS = "./cmd/verif-c25"
DRIVER = "drv_c25"


def run(c):
    c.rule = ("cases 0-4 are the fixed scenarios of the findings (window inside a group, has-more, limit 0, shared row marker), cases 5-7 and every "
              "25th case run the REAL handleGetTable (GetLODs over a range crossing the 1m/1s table boundary, LOD ordering, cache2 with a stub "
              "loader) and are compared with the model's handleGetTable in order-preserving abstract times; every other case is one generated table request: "
              "1-3 contiguous LODs, 0-5 storage rows per second with tags in 0..3 and string-top values from a 5-string pool, 1-3 handler-whats "
              "(8-18 requested functions give 2-3), row markers copied from storage rows (45%), random (25%) or absent, ascending/descending, "
              "limit 1..6 / total / large, tag values small (0..3) or, in a quarter of the cases, raw 64-bit values over the whole int64 range "
              "(MinInt64, MaxInt64, +-6e18, +-2^62, pairs more than 2^63 apart), group-by tags mapped (integer), unmapped (integer 0 + string value in stag[j]) or unspecified in a third of the cases, "
              "storage answers consistent across functions (75%) or thinned per function, sorted (85%: the rows of one "
              "second in the order ClickHouse gives them for the ORDER BY text the real query builder generates for this request) or shuffled, "
              "clean (92%) or with duplicate keys / ungrouped tags / rows outside their LOD, 1/60 answers are errors; 1-4 direct limitQueries calls "
              "per case plus one getTableFromLODs call, plus 2-3 calls of the REAL getHandlerWhat (function lists with every DigestWhat code, duplicates, runs sharing a storage selector, more "
              "than 7 selectors; the request of the case itself, whose real grouping drives the table while the oracle counts columns against "
              "the request), plus 4 direct calls of the real queryTableRows.Less and 3 of the real lessThan on boundary "
              "int64 pairs (ops cmp/mlt, compared with the model's order on unbounded integers and with a reference lexicographic order). Non-trivial = a marker has the time of a stored row (window boundary inside a time group), "
              "or NaN padding happened with >1 handler-what, or has-more was set with >1 LOD, or a descending handleGetTable case with rows in both LODs; "
              "distinct by op-sequence hash")
    c.assumptions += [
        "loadPoints (ClickHouse + cache) is an input of the model: any list of time groups per (handler-what, LOD), or an error",
        "getHandlerWhat is modelled (SH.Model.Table: selectorOf, sortFns, groupStep) and compared with the real function on generated function "
        "lists of every kind; DigestWhat.Selector() is compared code by code (seltab). value() is not modelled: the table pipeline requests "
        "only functions whose value is one stored field at LOD step = query step = 1 (exact integers; unique* on an empty sketch = 0)",
        "strings are compared through order-preserving codes of a fixed pool; numeric tag 47 is 0 (SKey comes from the string column); the row key "
        "of the model is (time, integer tag values, unmapped string values of the tags, string-top key) = tableRowKey{time, tsTags} restricted to "
        "the tags the harness uses (shardNum, stagCount and tags beyond them are 0 in every stub row)",
        "sort.Sort leaves the order of rows with equal rowRepr unspecified: model and harness order such runs by the full key",
        "limit/has-more/page oracles apply only when every requested function sees the same clean keys (what a GROUP BY returns)",
        "ClickHouse is not run: the stub storage orders the rows of one second by reading ASC/DESC per key off the ORDER BY clause of the "
        "text produced by the real buildSeriesQuery (SQL semantics: a direction belongs to one sort key)",
        "handleGetTable cases depend on time.Now() only through the position of the 52h LOD switch; they are printed in abstract times",
    ]
    # helper lemmas live in SH/Lemmas/Table*.lean; they are dependencies of the audited theorems (axiom audit is transitive)
    c.prove("SH.Props.C25", extra_files=["SH/Model/Table.lean", "SH/Lemmas/Table.lean", "SH/Lemmas/TableCells.lean", "SH/Lemmas/TableOrder.lean", "SH/Lemmas/TablePage.lean", "SH/Lemmas/TableWhats.lean"])
    drv = c.driver(DRIVER)
    binary = c.go_build(HARNESS)
    if binary and drv:
        rc, out = c.go_run(binary, [f"-n={c.n(3000, 200000)}"])
        c.harness_ok(rc, out, "verif-c25")
        c.correspond(out, drv)

    def search():
        if not binary:
            return
        for k in range(1, 6):
            rc, out = c.go_run(binary, [f"-n={c.n(20000, 100000)}", f"-seed={c.seed + 1000 * k}"])
            c.collect(out, label="")
            if c.oracle:
                return
    return search


META = {
    "level": "proof",
    "technique": ("Lean 4 theorems over an executable model of limitQueries/inRange/lessThan/getTableFromLODs and of handleGetTable's LOD ordering "
                  "(all storage outputs, LOD splits, markers, directions, limits) + differential correspondence with the real functions "
                  "(limitQueries, getTableFromLODs with a stub loadPoints, handleGetTable through GetLODs and cache2 with a stub loader) + direct "
                  "property oracle on the real results"),
    "text": ("Kernel-checked for every input: limitQueries returns exactly the first `limit` rows of the window in visiting order and has-more "
             "iff the window holds more (limitQueries_window_limit); every table row lies in the window (rows_in_window); row keys are unique, the key being the whole tag block "
             "including unmapped string values of group-by tags (rows_unique_by_time_tags; a slimmer key is refuted by a decide witness); the result is ordered by the visible key in the requested direction (rows_sorted), where the comparator is "
             "exactly the lexicographic order on (time, number of tags, tag values as unbounded integers, skey) and a strict total order "
             "(less_lex, less_total) — the real comparators are checked against it on boundary int64 pairs; the table holds exactly "
             "the pages of the requested functions across the LOD split and has-more is exact (table_page); getHandlerWhat drops no requested function and keeps their order, 1..7 selectors per storage query "
             "(getHandlerWhat_keeps_every_function), so with the modelled grouping every row has exactly one column per requested function and "
             "column i is function i of the sorted request (one_column_per_requested_function; one_column_per_function for an arbitrary grouping) and every cell block is the storage values of the row with that key on the page of that function, "
             "NaN in all its columns iff that page has no row with the key (cell_content, cell_content_page, cellBlock_value, cellBlock_nan_iff) — "
             "the last three for storage answers without duplicate keys per function; under the storage-order contract (StorageContract / VisitSorted: answers in ascending LOD order, ascending time groups, the rows "
             "of one time group in the requested order — what the ORDER BY text generated since e9888cce asks the storage for; the harness stub "
             "enforces it by reading the real generated ORDER BY) the window of a function is exactly all stored rows of all LODs inside the "
             "markers, visited in the requested total order, the page is its first `limit` elements "
             "(page_is_first_limit_rows_in_requested_order) and, when the pages of the requested functions hold the same keys, the table after "
             "the final sort is exactly that page in that order with has-more iff more window rows exist "
             "(table_is_first_limit_rows_in_requested_order) — the property's sentence literally; with merely time-ordered storage the page still "
             "leads the rest of the window in time (page_leads_in_time); and the fixed handleGetTable hands the ascending LOD list on "
             "unchanged (handleGetTable_keeps). Old-code behaviour is refuted by `decide` witnesses: group shortcut, spurious has-more, limit 0, NaN "
             "padding per handler-what, shared rowRepr.Tags array (getTableAliased; replayed on the pre-fix tree: same order and markers), and the "
             "double LOD reversal of handleGetTable (Caller.reversesFromEnd). The model is tied to /repo by replaying each generated request on the "
             "real code and on the compiled model and diffing rows, NaN pattern and flag."),
    "note": ("Trusted: Lean kernel; model<->code correspondence on generated requests (quick 3000, thorough 200000); value(), "
             "sort.Sort, Go maps, GetLODs and cache2 are inputs/trusted; ClickHouse is not run (the stub honours the generated ORDER BY text). "
             "Hypotheses that remain (they are facts about the storage, not about table.go): the storage-order contract and rows inside their "
             "LOD for the page theorems (ClickHouse is not run; a counterexample without the contract is in Props), duplicate-free answers per "
             "function for the cell theorems, equal page keys across functions for the whole-table order theorem. Not modelled as a variant of "
             "getTable: the qry[i] panic of the code before 8d8821bd (predicate oldPanics + witness only). Observation outside C25: "
             "copyRowValuesAt (series path, promql.go) still indexes qry with the column index as appendRowValues did. Fixed in /repo: 8d8821bd (table.go), 0753f316 (handleGetTable LOD order), e9888cce (ORDER BY … DESC on every key); "
             "the model is the fixed code, the old behaviours are kept as decide witnesses."),
    "design_ref": "DESIGN.md §6 C25",
}
