"""C07 — string-top rows conserve totals and keep the heaviest values (DESIGN §6 C07)."""
HARNESS = "./cmd/verif-c07"
DRIVER = "drv_c07"


def gen(c, binary):
    """SH/Gen/C07.lean: data_model.DefaultStringTopCapacity as the compiler sees it"""
    if not binary:
        return
    rc, out = c.go_run(binary, ["-mode=gen"])
    ok = rc == 0 and "defaultStringTopCapacity" in out
    c.oblige("regenerate lean/SH/Gen/C07.lean from /repo (DefaultStringTopCapacity)", ok, out, kind="tie")
    if ok:
        c.gen("C07", out)
    else:
        c.broken.append("verif-c07 -mode=gen failed:\n" + out[-1500:])


def run(c):
    c.rule = ("each case drives one real MultiItem (60% directly through MapStringTop/MapStringTopBytes + the MultiValue call, 40% through "
              "agent.Shard.ApplyCounter/AddCounterHost/AddValueCounterHost/ApplyValues/MergeItemValue) with Zipf-distributed top values "
              "(string, int, string+int, binary, empty), capacity 1..20 / varying per event / <1 (default 100) / roomy, counter, value, "
              "value-array and merge events whose counts and values are dyadic rationals (multiples of 1/16; half of the cases fractional, "
              "12% of the cases a cluster of many distinct top values with counts less than 1 apart, 10% a cluster of very heavy near-ties "
              "base + k*step around 2^24/2^25/2^31/2^40 with steps 1/16, 1, half a float32 ulp, a float32 ulp — in both a finish cuts through the cluster), random re-enumerations, FinishStringTop at the end (and sometimes in the middle) with "
              "capacity around the number of top values (one third steered onto a tie); non-trivial = the case reached at least "
              "one of: resample = a resample round evicted values, redirect = an event was sent to the tail by the sample-factor "
              "test, fold = finish folded values, tie = equal counts on both sides of the finish boundary, fraccut = retained and folded counts at the boundary differ by "
              "less than 1, f32cut = they differ but are equal as float32 (per-tag counts in "
              "nontrivial_tags); distinct by op-sequence hash. A second, oracle-only stream (-mode=heavy, no model replay because sums of such weights are "
              "not exact) builds rows of 3..40 distinct values whose weights are float64 neighbours / float32 neighbours +-1 float64 ulp / "
              "relative offsets k*2^-30 of 3, 2^24, 2^31, 2^53, 2^62, 1e30, 3e38 and finalizes with a capacity inside the cluster")
    c.assumptions += [
        "exact float64 domain: counts and values are multiples of 1/16, sums multiples of 1/256, all below 2^53 in those units (the model "
        "holds them as scaled Ints); value-array counts are multiples of the array length",
        "MapStringTopBytes is called with a view of ONE per-case byte buffer that the next call overwrites (and a third of the calls scribble "
        "over afterwards), as its real callers do; that the key stored in Top is a copy independent of the caller's buffer is trivially true of "
        "the functional model, so this aliasing obligation rests on the correspondence and the oracle (conservation, finish-over-capacity, "
        "duplicate-top-key, write-never-returns), not on a theorem",
        "random draws and Go map order are inputs of the model: the harness derives a witness (rounds, evicted keys, enumeration) from the "
        "observed pre/post state; the model must reproduce the observed row from it (an illegal eviction or fold cannot be reproduced)",
        "host tags, sum of squares, t-digest and HLL parts of a MultiValue are not modelled; `1 << sampleFactorLog2` does not overflow",
        "determinism: the event sequence of a case (api, capacity, key, count, event) is a function of the seed alone; which key a resample "
        "draw hits depends on Go's randomised map iteration inside the code under test, so witnesses/observations of two runs may differ",
        "the resample loop is modelled with fuel: termination is probabilistic (see theorems resampleLoop_can_terminate / resampleLoop_zero_draws_stuck)",
    ]
    binary = c.go_build(HARNESS)
    gen(c, binary)
    c.prove("SH.Props.C07", extra_files=["SH/Model/StringTop.lean"])
    drv = c.driver(DRIVER)
    if binary and drv:
        # thorough: 6 batches with seeds derived from VERIF_SEED (keeps each output stream at ~60 MB)
        for k in range(c.n(1, 6)):
            rc, out = c.go_run(binary, [f"-n={c.n(800, 4000)}", f"-seed={c.seed + 7919 * k}"])
            c.harness_ok(rc, out, "verif-c07")
            c.correspond(out, drv, label=f"batch{k}")
            del out
    if binary:
        # near-ties beyond the exact-sum domain: only the order part of the property (heaviest kept, capacity) is evaluated
        rc, out = c.go_run(binary, ["-mode=heavy", f"-n={c.n(400, 6000)}"])
        c.harness_ok(rc, out, "verif-c07 -mode=heavy")
        c.collect(out, label="heavy")

    def search():
        if not binary:
            return
        for k in range(1, 6):
            rc, out = c.go_run(binary, [f"-n={c.n(3000, 20000)}", f"-seed={c.seed + 1000 * k}"])
            c.collect(out)
            if c.oracle:
                return
    return search


META = {
    "level": "proof",
    "technique": ("Lean 4 theorems over an executable model of MapStringTop/resample/FinishStringTop (induction over arbitrary histories, "
                  "all capacities, draws and enumerations) + witness-based differential correspondence with the real MultiItem and agent.Shard "
                  "+ direct conservation / heaviest-kept oracle on the real code"),
    "text": ("Kernel-checked: for every history of writes, re-enumerations and finishes from an empty row, every capacity, every draw stream "
             "and every map order, count/sum/min/max over top+tail equal those of the events written (conservation, also one step at a time "
             "for resample and finish); keys stay unique; finish leaves at most max(capacity,0) values, the retained and folded values "
             "partition the old top, every retained count >= every folded count (exact comparison; `cmpRounded` shows by `decide` that a "
             "comparator rounding the weights to any coarser grid — int truncation, a float32 copy — retains a lighter value), and the "
             "returned whale weight is the total count. "
             "The model is tied to the code by replaying each generated history on the real row and on the compiled model, "
             "comparing the touched aggregate, the tail, the size, the sample factor and the evicted set after every event and the whole "
             "row after finish."),
    "note": ("Trusted: Lean kernel; the reading of the property; correspondence on generated histories (quick 800, thorough 6x4000 cases) in the "
             "exact integer domain of float64; witnesses for randomness/map order are derived from observed states (a draw that is "
             "consistent with the outcome is assumed, the actual sfc64 stream is not replayed except for the redirect test). "
             "Near-tie weights outside the exact-sum domain (2^53, 2^62, 1e30, 3e38, float64-ulp neighbours) are checked by the direct oracle only "
             "(finish-not-heaviest compares the real float64 counters), not by the model correspondence. Memory aliasing between the caller's []byte and the keys of Top cannot be expressed in the functional model: it is covered only by "
             "driving MapStringTopBytes from one reused, overwritten buffer and checking the real row. Not modelled: host tags, sum of squares, t-digest, HLL, int overflow of 1<<sampleFactorLog2, non-finite counts. "
             "Termination of the resample loop is only probabilistic in the code; proved: it ends under maximal draws, and "
             "a round with zero draws on positive counts changes nothing (so no worst-case bound exists)."),
    "design_ref": "DESIGN.md §6 C07",
}
