"""C12 — ingestion accepts only valid events and accounts for every rejected one (DESIGN §6 C12)."""
HARNESS = "./cmd/verif-c12"
DRIVER = "drv_c12"


def gen(c, binary):
    """regenerate lean/SH/Gen/C12.lean (status codes, MaxFloat32, tag constants, built-in status metric ids) from /repo"""
    rc, out = c.go_run(binary, ["-mode=gen"])
    ok = rc == 0 and "namespace SH.Gen.C12" in out and "end SH.Gen.C12" in out
    c.oblige("regenerate lean/SH/Gen/C12.lean from the working tree (verif-c12 -mode=gen)", ok, out, kind="tie")
    if ok:
        c.gen("C12", out)
    else:
        c.broken.append("verif-c12 -mode=gen failed:\n" + out[-2000:])
    return ok


def run(c):
    c.rule = ("one case = a fresh agent built from parts (1-4 shards, pre-filled mapping cache), one random metric description "
              "(raw/raw64/named/draft tags, percentiles, resolution 1/5/15/60, fixed/by-id/tags-hash/invalid sharding, optional second shard) and "
              "1-6 random events (valid exact-domain payloads; injected NaN/±Inf/±MaxFloat32 neighbours/negative numbers at random "
              "positions of counter, values, histogram values and weights; both-set; empty; unknown/draft/legacy/duplicate/garbage tag "
              "names; unmapped/padded/invalid-UTF-8/corrupted/raw tag values; not-found/disabled metric; timestamps around now+3) run "
              "through the real Agent.Map/MapEnvironment + Agent.ApplyMetric; after every event all rows of all shard buckets are "
              "compared with the model; every event is also applied to a second agent of the same case running with Config.LegacyApplyValues "
              "(MultiValue.ApplyValuesLegacy), whose rows are compared with the model's legacy mode and, row by row (count, sum), with the "
              "default-mode agent. non-trivial = the case contains both an event rejected by tag/number validation and an "
              "accepted event that changed a metric row; distinct by op-sequence hash")
    c.assumptions += [
        "worker.fillTime/fillMetricMeta (cmd/statshouse, package main) are not linked: the harness sets the header fields they set "
        "(timestamp, metric meta, not-found/disabled status) as part of the input",
        "tag-name lookup, string normalisation (AppendValidStringValue/AppendHexStringValue), corrupted-marker search, raw value "
        "parsers and the mapping table are inputs of the model, observed with the real functions on copies of the bytes (C11/C20 own them)",
        "arithmetic is exact (Rat): the generator stays in float64's exact domain; rounding outside it is not decided",
        "string-top capacity is never reached (< 100 distinct values per row), host tag values, TDigest contents (only its existence) "
        "and the bucket slot of a row are not observed",
        "sharding by tags hash: xxh3 of the mapped key is external; the harness passes the shard the real sharding.Shard returns for "
        "the key produced by the real Map (Event.hashShard) and the model treats it as a fixed shard (effCfg)",
        "HLL item count = number of distinct hashes (few small integers per row)",
    ]
    binary = c.go_build(HARNESS)
    if binary:
        gen(c, binary)
    c.prove("SH.Props.C12", extra_files=["SH/Model/Ingest.lean", "SH/Lemmas/IngestStore.lean", "SH/Lemmas/IngestAgg.lean", "SH/Gen/C12.lean"])
    drv = c.driver(DRIVER)
    if binary and drv:
        rc, out = c.go_run(binary, [f"-n={c.n(4000, 40000)}"])
        c.harness_ok(rc, out, "verif-c12")
        c.correspond(out, drv)

    def search():
        if not binary:
            return
        for k in range(1, 6):
            rc, out = c.go_run(binary, [f"-n={c.n(20000, 40000)}", f"-seed={c.seed + 1000 * k}"])
            c.collect(out)
            if c.oracle:
                return
    return search


META = {
    "level": "proof",
    "technique": ("Lean 4 theorems (all events, all stores, all event sequences, exact Rat) over an executable model of Agent.Map + "
                  "Agent.ApplyMetric + shard/bucket weighting, tied to /repo by differential replay of generated events on the real agent "
                  "and by a direct exact-arithmetic oracle on the real rows"),
    "text": ("Kernel-checked. (1) verdict_zero_iff: 'accepted' iff metric found/enabled and shardable, every tag valid, counter/values/"
             "histogram finite within ±MaxFloat32, counters ≥ 0, not both values and uniques, not empty. (2) Rejected: ApplyMetric is exactly "
             "one status record carrying the verdict (+ its copy for a configured second shard) and no row of another metric changes, for any "
             "store (rejected_effects, rejected_record_count, rejected_contributes_nothing); at store level the count read at every address "
             "grows by the number of those records written to it, i.e. by 1 at one row of the right shard and 0 elsewhere "
             "(rejected_status_store, rejected_primary_record). (3) The status names a real defect, first invalid tag wins "
             "(status_has_witness, validate*_meaning, tag_status_first_invalid). (4) Accepted: one ok record, warnings, contribution "
             "(accepted_effects); the ok row grows by exactly 1 and no error-status row changes (accepted_ok_record, "
             "accepted_no_error_status). (5) Weighting lifted through the store lookup: for one event and for EVERY event list, every row "
             "address of a user metric reads old count/sum + Σ rowDelta, where rowDelta is 0 for rejected events and for accepted ones "
             "(counter if present else #values+Σweights / #uniques, Σv·w·count/total) at the event's row of the metric's shard and once more "
             "at the second shard's copy (applyEvent_row, applyAll_row, applyAll_row_from_empty; counter_semantics, uniques_as_values for "
             "Δsum/Δcount = Σv·w/total); counts never go negative (applyEvent_NN). (6) For every event list the error-status rows count "
             "exactly the rejected events, once each, and the user rows equal those of the accepted events alone (applyAll_error_status, "
             "rejected_invisible). (7) All sequence theorems also for tags-hash sharding with the hash as input (applyAllH_row, "
             "applyAllH_error_status, rejected_invisible_H, effCfg_hash_shard). (8) Boundary of 'not empty': a histogram whose weights are all "
             "0 is accepted; with an absent counter it changes no row, with a counter > 0 it creates an empty row "
             "(zeroWeight_counter_absent/present). (9) addr2_eq: the second shard's copy goes to the Tail of the row without string top. "
             "(10) Every aggregate of every row over every event list: the whole MultiValue read at a user-metric address is the fold, over "
             "the events in order, of their row updates applied 0/1/2 times (applyEvent_rowMV, applyAll_rowMV, applyAllH_rowMV); projected: "
             "(ValueSet, ValueMin) and (ValueSet, ValueMax) are the running min/max folded over the values of the accepted events addressed "
             "to the row (applyAll_row_min/_max, evFn_fields), the sum of squares is old + Σ hits·Σv²w·count/total (applyAll_row_sq), the "
             "unique set is the old one with the accepted hashes inserted, duplicate-free (applyAll_row_uniq, applyAll_row_uniq_mem), the "
             "percentile (TDigest) flag is never cleared, never set without percentiles, and after a value update equals old || (pct && "
             "min ≠ max) (applyAll_row_td, evFn_td_values). (11) Every status row over every event list, warnings and clamped-future "
             "included: count = old + Σ over events of the status records written to it + the first shard's clamped-future warning "
             "(applyEvent_status_row, applyAll_status_row, applyAllH_status_row, clampHit_code; the second shard never writes that warning: "
             "resolveTs_second_not_clamped). (12) Agent configuration: the legacy value-application mode (Config.LegacyApplyValues, "
             "MultiValue.ApplyValuesLegacy) is modelled (Cfg.legacy, valuesFn) and all row/status theorems above hold in both modes; "
             "legacy_eq_default: for every row and every argument both modes give the same count, sum, min, max, sum of squares and unique "
             "set (identical rows for metrics without percentiles); legacy_rows_eq_default: over every event list the two agents' rows "
             "agree in all of these, i.e. same count and average; only the TDigest flag differs (evFn_td_values_legacy: old || pct)."),
    "note": ("Trusted: Lean kernel; the correspondence on generated cases (quick 4000, thorough 40000 cases of 1-6 events, all sharding "
             "strategies); the harness' emulation of worker.fillTime/fillMetricMeta; helper functions treated as inputs (tag lookup, string "
             "normalisation, raw parsers, mapping cache, xxh3 of the key). Exact arithmetic only (no float rounding). Store-level theorems "
             "read rows through getMV (first match, as storeUpd writes); the count/sum/status-count theorems assume non-negative counts in "
             "the initial store (true of the empty store, preserved by every event), the whole-row fold and min/max/squares/unique/flag "
             "theorems need no such assumption. Remaining partial: TDigest contents (only the flag), host tags, string-top capacity/"
             "resampling and bucket slots are outside the model. Observation outside C12 and C10 as stated: with ShardFixedKey2 the first "
             "shard's call strips the string-top tag from the shared key, so the second shard files the event under the Tail row (right "
             "metric, count and sum; wrong row) and never gets the clamped-future warning. Replay on the real code: `verif-c12 "
             "-mode=shard2demo`; Lean: addr2_eq, resolveTs_second_not_clamped. A maintainer fix is PROPOSED (not applied) in "
             "fixes/C12-shard2-stop-tag.proposal.diff/.msg (copy the key for the second shard; demo test included; agent tests pass); "
             "model and check describe the current code."),
    "design_ref": "DESIGN.md §6 C12",
}
