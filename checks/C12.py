"""C12 — ingestion accepts only valid events and accounts for every rejected one (DESIGN §6 C12)."""
HARNESS = "./cmd/verif-c12"
DRIVER = "drv_c12"


def gen(c, binary):
    """regenerate lean/SH/Gen/C12.lean (status codes, MaxFloat32, tag constants, built-in status metric ids) from /repo"""
    rc, out = c.go_run(binary, ["-mode=gen"])
    ok = rc == 0 and "namespace SH.Gen.C12" in out and "end SH.Gen.C12" in out
    c.oblige("regenerate lean/SH/Gen/C12.lean from the working tree (verif-c12 -mode=gen)", ok, out, kind="tie")
    if ok:
        c.gen("C12", out)
    else:
        c.broken.append("verif-c12 -mode=gen failed:\n" + out[-2000:])
    return ok


def run(c):
    c.rule = ("one case = a fresh agent built from parts (1-4 shards, pre-filled mapping cache), one random metric description "
              "(raw/raw64/named/draft tags, percentiles, resolution 1/5/15/60, fixed/by-id/invalid sharding, optional second shard) and "
              "1-6 random events (valid exact-domain payloads; injected NaN/±Inf/±MaxFloat32 neighbours/negative numbers at random "
              "positions of counter, values, histogram values and weights; both-set; empty; unknown/draft/legacy/duplicate/garbage tag "
              "names; unmapped/padded/invalid-UTF-8/corrupted/raw tag values; not-found/disabled metric; timestamps around now+3) run "
              "through the real Agent.Map/MapEnvironment + Agent.ApplyMetric; after every event all rows of all shard buckets are "
              "compared with the model. non-trivial = the case contains both an event rejected by tag/number validation and an "
              "accepted event that changed a metric row; distinct by op-sequence hash")
    c.assumptions += [
        "worker.fillTime/fillMetricMeta (cmd/statshouse, package main) are not linked: the harness sets the header fields they set "
        "(timestamp, metric meta, not-found/disabled status) as part of the input",
        "tag-name lookup, string normalisation (AppendValidStringValue/AppendHexStringValue), corrupted-marker search, raw value "
        "parsers and the mapping table are inputs of the model, observed with the real functions on copies of the bytes (C11/C20 own them)",
        "arithmetic is exact (Rat): the generator stays in float64's exact domain; rounding outside it is not decided",
        "string-top capacity is never reached (< 100 distinct values per row), host tag values, TDigest contents (only its existence) "
        "and the bucket slot of a row are not observed; sharding by tags hash is not exercised",
        "HLL item count = number of distinct hashes (few small integers per row)",
    ]
    binary = c.go_build(HARNESS)
    if binary:
        gen(c, binary)
    c.prove("SH.Props.C12", extra_files=["SH/Model/Ingest.lean", "SH/Gen/C12.lean"])
    drv = c.driver(DRIVER)
    if binary and drv:
        rc, out = c.go_run(binary, [f"-n={c.n(4000, 40000)}"])
        c.harness_ok(rc, out, "verif-c12")
        c.correspond(out, drv)

    def search():
        if not binary:
            return
        for k in range(1, 6):
            rc, out = c.go_run(binary, [f"-n={c.n(20000, 40000)}", f"-seed={c.seed + 1000 * k}"])
            c.collect(out)
            if c.oracle:
                return
    return search


META = {
    "level": "proof",
    "technique": ("Lean 4 theorems (all events, all stores, all event sequences) over an executable model of Agent.Map + "
                  "Agent.ApplyMetric + shard/bucket weighting, tied to /repo by differential replay of generated events on the real agent "
                  "and by a direct exact-arithmetic oracle on the real rows"),
    "text": ("Kernel-checked: the verdict is 'accepted' iff the metric is found/enabled and shardable, every tag is valid and "
             "counter/values/histogram are finite, within ±MaxFloat32, counters ≥ 0, not both values and uniques, not empty "
             "(verdict_zero_iff); a rejected event makes ApplyMetric add exactly one ingestion-status record whose status is the "
             "verdict (plus its copy for a configured second shard) and changes no other row of any store (rejected_effects, "
             "rejected_record_count, rejected_contributes_nothing), for every event sequence the non-status rows are those of the "
             "accepted events alone (rejected_invisible); the recorded status names a defect the event really has, first invalid tag "
             "wins (status_has_witness, validate*_meaning, tag_status_first_invalid); an accepted event adds one ok record, warnings "
             "and its contribution, with Δcount = #values+Σweights when the counter is absent, Δcount = counter otherwise and "
             "Δsum/Δcount = Σv·w/total always (counter_semantics, uniques_as_values). The model is replayed against the real "
             "agent row by row; status codes, limits and built-in metric ids are regenerated from the working tree."),
    "note": ("Trusted: Lean kernel; the correspondence on generated cases (quick 4000, thorough 40000 cases of 1-6 events); the harness' "
             "emulation of worker.fillTime/fillMetricMeta; helper functions treated as inputs (tag lookup, string normalisation, raw "
             "parsers, mapping cache). Exact arithmetic only. The theorem counter_semantics is stated on the row update function "
             "(MultiValue.ApplyValues) and linked to ApplyMetric by values_effect_is_weighting; it is not lifted through the "
             "store lookup. Observed but outside the property: for a metric with a second shard the string-top tag is lost in the "
             "second shard (the first shard's call removes it from the shared key)."),
    "design_ref": "DESIGN.md §6 C12",
}
