"""C21 — persistent caches: chunked storage files and the mapping cache (DESIGN §6 C21)."""
HARNESS = "./cmd/verif-c21"
DRIVER = "drv_c21"


def gen(c):
    b = c.go_build(HARNESS)
    if b:
        rc, out = c.go_run(b, ["-mode=gen"])
        if rc == 0 and "namespace SH.Gen.C21" in out:
            c.gen("C21", out)
        else:
            c.broken.append("verif-c21 -mode=gen failed: " + out[-500:])
    return b


def run(c):
    c.rule = ("per case index one of: ck (op sequences on a real ChunkedStorage2: read/next/reset/start/item/flush/fin, injected write "
              "failures, re-opened truncated or bit-flipped copies, sampled damage probes), ckx (small multi-chunk file + every truncation "
              "offset and every single-bit flip; quick tier: every 2nd offset / 5th bit), mc (op sequences on a real MappingsCache: "
              "add/get/ttl/set/stats/save/reload full|trunc|flip/probe, deterministic and production sort mode, testMode on/off), mcx (small "
              "saved cache file + every truncation/bit flip loaded into a throw-away cache), raw (crafted hash-valid files with malformed item "
              "streams), bigck/bigmc (> ChunkSize/2 of data). non-trivial = reached eviction / TTL removal / a damaged re-open or reload / a "
              "write error / a multi-chunk file / an exhaustive damage slice / a load error on a crafted file; distinct by op-sequence hash")
    c.assumptions += [
        "xxh3 is an uninterpreted function H: the model accepts a chunk iff H(previous hash ‖ header ‖ body) equals the stored bytes; the harness "
        "supplies the real xxh3 values of every structurally possible chunk position as opaque tokens",
        "Go map iteration order is an input: the sorted eviction candidates of AddValues, the expired keys RemoveByTTL met and the write order of "
        "Save (production mode) are observed on the real object and checked by the model for legality (legalCands / legalRemoved / permutation)",
        "accessTSGran = 1 (the only value NewMappingsCache sets); int64 sums do not overflow; items are smaller than ChunkSize/2; slice storage "
        "callbacks (no I/O errors except injected WriteAt failures); one call = one critical section (locks trusted)",
    ]
    binary = gen(c)
    c.prove("SH.Props.C21", extra_files=["SH/Model/Chunked.lean", "SH/Model/MapCache.lean"])
    drv = c.driver(DRIVER)
    if binary and drv:
        rc, out = c.go_run(binary, [f"-n={c.n(300, 4000)}"], timeout=1500)
        c.harness_ok(rc, out, "verif-c21")
        c.correspond(out, drv)

    def search():
        if not binary:
            return
        for k in range(1, 6):
            rc, out = c.go_run(binary, [f"-n={c.n(1500, 3000)}", f"-seed={c.seed + 1000 * k}"], timeout=1500)
            c.collect(out, label="")
            if c.oracle:
                return
    return search


META = {
    "level": "proof",
    "technique": "Lean 4 theorems over executable models of the chunk file format and of the mapping cache (induction over chunk lists and over op sequences; "
                 "hash in reduction form) + op-by-op differential correspondence with the real ChunkedStorage2 / MappingsCache incl. exhaustive truncation and bit-flip slices",
    "text": ("Kernel-checked theorems, for every hash function H with 16-byte results: a chunk file written by the writer reads back as exactly the "
             "saved chunks (read_write_roundtrip); cut at ANY offset it yields a prefix of the saved chunks, all intact, and a clean end only at a chunk "
             "boundary (truncated_gives_prefix); any corruption of chunk j — in particular any single changed byte, hence every bit flip — yields exactly the "
             "first j chunks plus an error unless H maps the damaged bytes to the stored hash (corrupt_detected / byte_change_detected, reduction form, "
             "accepts_iff). For the mapping cache, by induction over ALL sequences of add/get/TTL-evict/resize/stats/save/restart ops, all eviction "
             "candidate lists, visit orders, write orders and all damage functions applied to the file: one entry per string and sumSize = Σ element "
             "sizes, sumTS = Σ access times (accounting_exact, sums_never_negative); AddValues never grows the cache past max(maxSize, size before) and "
             "a cache within its limit stays within it (addValues_size_bound, size_never_exceeds); every cached / returned value is non-marker, for a "
             "non-empty string, and was given to AddValues for exactly that string (cache_values_are_added, get_returns_added_value); Save writes a "
             "well-formed encoding of the map in any enumeration order (save_writes_encoding), a restart from it loads the same mapping and sums "
             "(save_then_reload_same), a restart from any truncation loads only whole saved entries (load_truncated, save_then_truncated_reload_subset). "
             "The models are tied to the code by replaying every generated op on the real ChunkedStorage2 / MappingsCache and on the compiled Lean model "
             "and diffing state digests after every op, incl. every truncation offset and every single-bit flip of small saved files (thorough tier)."),
    "note": ("Trusted: Lean kernel; the correspondence on generated op sequences; xxh3 as an uninterpreted function (corruption detection is proved only in reduction "
             "form: it fails exactly on a HashCoincidence); Go map order, sort tie order and Save order are observed inputs whose legality the model checks "
             "(legalCands/legalRemoved are executable predicates, not proved complete); locks (one call = one step), accessTSGran = 1, no int64 overflow, items "
             "< ChunkSize/2. The value theorem takes the hypothesis ReloadsGood for restarts; it is discharged for restarts from a just-saved file cut anywhere "
             "(restart_after_save_good) and, via corrupt_detected, for corrupted files modulo a hash coincidence, but the composition over arbitrary interleavings of "
             "saves and repeated damaged restarts is not stated as one closed theorem. load does not enforce maxSize (a file saved under a larger limit is loaded whole; "
             "the cache then shrinks by the 1/1024 rule) — the size theorem is therefore about AddValues and constant limits. Defect found and fixed in /repo "
             "(9b6d1e49): the same new string twice in one AddValues call double-counted sumSize/sumTS; kept as Variant.dupAdd with theorem dupAdd_breaks_accounting."),
    "design_ref": "DESIGN.md §6 C21",
}
