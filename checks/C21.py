"""C21 — persistent caches: chunked storage files and the mapping cache (DESIGN §6 C21)."""
HARNESS = "./cmd/verif-c21"
DRIVER = "drv_c21"


def gen(c):
    b = c.go_build(HARNESS)
    if b:
        rc, out = c.go_run(b, ["-mode=gen"])
        if rc == 0 and "namespace SH.Gen.C21" in out:
            c.gen("C21", out)
        else:
            c.broken.append("verif-c21 -mode=gen failed: " + out[-500:])
    return b


def run(c):
    c.rule = ("per case index one of: ck (op sequences on a real ChunkedStorage2: read/next/reset/start/item/flush/fin, injected write "
              "failures, re-opened truncated or bit-flipped copies, sampled damage probes), ckx (small multi-chunk file + every truncation "
              "offset and every single-bit flip; quick tier: every 3rd offset / 17th bit), mc (op sequences on a real MappingsCache: "
              "add/get/ttl/set/stats/save/reload full|trunc|flip/probe, deterministic and production sort mode, testMode on/off), mcx (small "
              "saved cache file + every truncation/bit flip loaded into a throw-away cache), raw (crafted hash-valid files with malformed item "
              "streams), bigck/bigmc (> ChunkSize/2 of data). non-trivial = reached eviction / TTL removal / a damaged re-open or reload / a "
              "write error / a multi-chunk file / an exhaustive damage slice / a load error on a crafted file; distinct by op-sequence hash")
    c.assumptions += [
        "xxh3 is an uninterpreted function H: the model accepts a chunk iff H(previous hash ‖ header ‖ body) equals the stored bytes; the harness "
        "supplies the real xxh3 values of every structurally possible chunk position as opaque tokens",
        "Go map iteration order is an input: the sorted eviction candidates of AddValues, the expired keys RemoveByTTL met and the write order of "
        "Save (production mode) are observed on the real object and checked by the model for legality (legalCands / legalRemoved / permutation)",
        "accessTSGran = 1 (the only value NewMappingsCache sets); int64 sums do not overflow; items are smaller than ChunkSize/2; slice storage "
        "callbacks (no I/O errors except injected WriteAt failures); one call = one critical section (locks trusted)",
    ]
    binary = gen(c)
    c.prove("SH.Props.C21", extra_files=["SH/Model/Chunked.lean", "SH/Model/MapCache.lean"])
    drv = c.driver(DRIVER)
    if binary and drv:
        rc, out = c.go_run(binary, [f"-n={c.n(400, 3000)}"], timeout=1500)
        c.harness_ok(rc, out, "verif-c21")
        c.correspond(out, drv)

    def search():
        if not binary:
            return
        for k in range(1, 6):
            rc, out = c.go_run(binary, [f"-n={c.n(2000, 6000)}", f"-seed={c.seed + 1000 * k}"], timeout=1500)
            c.collect(out, label="")
            if c.oracle:
                return
    return search


META = {
    "level": "proof",
    "technique": "Lean 4 theorems over executable models of the chunk file format and of the mapping cache (induction over chunk lists and over op sequences; "
                 "hash in reduction form) + op-by-op differential correspondence with the real ChunkedStorage2 / MappingsCache incl. exhaustive truncation and bit-flip slices",
    "text": "",
    "note": "",
    "design_ref": "DESIGN.md §6 C21",
}
