"""C21 — persistent caches: chunked storage files and the mapping cache (DESIGN §6 C21)."""
HARNESS = "./cmd/verif-c21"
DRIVER = "drv_c21"


def gen(c):
    b = c.go_build(HARNESS)
    if b:
        rc, out = c.go_run(b, ["-mode=gen"])
        if rc == 0 and "namespace SH.Gen.C21" in out:
            c.gen("C21", out)
        else:
            c.broken.append("verif-c21 -mode=gen failed: " + out[-500:])
    return b


def run(c):
    c.rule = ("per case index one of: ck (op sequences on a real ChunkedStorage2: read/next/reset/start/item/flush/fin, injected write "
              "failures, re-opened truncated or bit-flipped copies, sampled damage probes), ckx (small multi-chunk file + every truncation "
              "offset and every single-bit flip; quick tier: every 2nd offset / 5th bit), mc (op sequences on a real MappingsCache: "
              "add/get/ttl/set/stats/save/reload full|trunc|flip/probe, deterministic and production sort mode, testMode on/off; every lookup goes through GetValue AND GetValueBytes, alternating which of the two performs the access-time refresh, the Bytes key being a slice of one reused scratch buffer that is overwritten after every call), mcx (small "
              "saved cache file + every truncation/bit flip loaded into a throw-away cache), raw (crafted hash-valid files with malformed item "
              "streams), bigck/bigmc (> ChunkSize/2 of data). non-trivial = reached eviction / TTL removal / a damaged re-open or reload / a "
              "write error / a multi-chunk file / an exhaustive damage slice / a load error on a crafted file; distinct by op-sequence hash")
    c.assumptions += [
        "xxh3 is an uninterpreted function H: the model accepts a chunk iff H(previous hash ‖ header ‖ body) equals the stored bytes; the harness "
        "supplies the real xxh3 values of every structurally possible chunk position as opaque tokens",
        "Go map iteration order is an input: the sorted eviction candidates of AddValues, the expired keys RemoveByTTL met and the write order of "
        "Save (production mode) are observed on the real object and checked by the model for legality (legalCands / legalRemoved / permutation)",
        "accessTSGran = 1 (the only value NewMappingsCache sets); int64 sums do not overflow; items are smaller than ChunkSize/2; slice storage "
        "callbacks (no I/O errors except injected WriteAt failures); one call = one critical section (locks trusted)",
    ]
    binary = gen(c)
    lemma_files = ["SH/Lemmas/C21Closed.lean", "SH/Lemmas/C21Order.lean", "SH/Lemmas/C21Writer.lean"]
    c.prove("SH.Lemmas.C21Base", extra_files=["SH/Model/Chunked.lean", "SH/Model/MapCache.lean"])
    if c.tier == "thorough":
        # every theorem of the second-round developments audited individually
        c.prove("SH.Lemmas.C21Closed")
        c.prove("SH.Lemmas.C21Order")
        c.prove("SH.Lemmas.C21Writer")
    # the headline theorems: building them builds all four developments; their `#print axioms` is transitive over
    # everything they use; the lemma sources are scanned for forbidden constructs
    c.prove("SH.Props.C21", extra_files=lemma_files)
    drv = c.driver(DRIVER)
    if binary and drv:
        rc, out = c.go_run(binary, [f"-n={c.n(300, 4000)}"], timeout=1500)
        c.harness_ok(rc, out, "verif-c21")
        c.correspond(out, drv)

    def search():
        if not binary:
            return
        for k in range(1, 6):
            rc, out = c.go_run(binary, [f"-n={c.n(1500, 3000)}", f"-seed={c.seed + 1000 * k}"], timeout=1500)
            c.collect(out, label="")
            if c.oracle:
                return
    return search


META = {
    "level": "proof",
    "technique": "Lean 4 theorems over executable models of the chunk file format and of the mapping cache (induction over chunk lists and over op sequences; "
                 "hash in reduction form) + op-by-op differential correspondence with the real ChunkedStorage2 / MappingsCache incl. exhaustive truncation and bit-flip slices",
    "text": ("Kernel-checked theorems, for every hash function H with 16-byte results. CHUNK FILES: a written file reads back as exactly the saved "
             "chunks (read_write_roundtrip); ANY byte string not longer than the saved file — cut at any offset, any bytes changed, any combination — "
             "reads as a prefix of the saved chunks unless those very bytes pass the hash check on something that is not the saved chunk "
             "(damaged_prefix_or_passes, tight reduction form PassesFrom; a pure cut never passes: truncation_never_passes). WRITE SIDE: over all lists "
             "of reset/start/FinishItem/finishChunk/FinishWriteChunk calls with arbitrarily injected WriteAt failures the storage object refines a "
             "list-level writer: the bytes before the write offset are exactly the encoding of the accepted chunks, the sticky writeErr discards until "
             "reset, an error-free FinishWriteChunk leaves exactly the encoding, a reader sees all accepted chunks first (writer_refines, "
             "arun_err_keeps_done, fin_ok_whole_file, reader_sees_accepted_chunks). CACHE, CLOSED THEOREM (closed_run): from an empty cache, for ANY "
             "interleaving of AddValues/GetValue/RemoveByTTL/SetSizeTTL/Stats/Save and restarts from files damaged in any non-lengthening way, any "
             "eviction candidates / visit orders / write orders: accounting exact (one entry per string, sumSize = sum of element sizes, sumTS = sum of "
             "access times, never negative), every cached or returned value is non-marker, for a non-empty string and was given to AddValues for exactly "
             "that string (closed_get), the file on disk is a no-longer image of a state this cache saved; AddValues never grows the cache past "
             "max(maxSize, size before) (closed_size). Hypotheses: only the ranges of the Go types, Save enumerates the map, and no restart reads damaged "
             "bytes that pass the hash check — which is a theorem for cut files, so closed_run_truncations has no hash hypothesis at all. Save/restart: "
             "save_writes_encoding, save_then_reload_same. GO MAP ORDER IS TREATED EXACTLY: the loops of RemoveByTTL and AddValues over an enumeration have "
             "closed forms (ttlRemoved, collect_eq) and the driver's acceptance predicates are proved sound AND complete against them "
             "(legalRemoved_sound/_complete, legalCount_sound/_complete/_exact, legalCount_perm). The models are tied to the code by replaying every "
             "generated op on the real ChunkedStorage2 / MappingsCache and on the compiled Lean model and diffing state digests after every op, incl. "
             "every truncation offset and every single-bit flip of small saved files (thorough tier)."),
    "note": ("Round 7: every third `mc save` op is preceded by a Save whose file write is refused (oracle save-failure-forgotten / save-failure-swallowed: a failed Save must not be counted as saved, the retry must write). Trusted: Lean kernel; the correspondence on generated op sequences; xxh3 as an uninterpreted function (detection of changed bytes is proved in "
             "reduction form only: it fails exactly when the damaged file itself PassesFrom; the first-round escape clause HashCoincidence was too weak — "
             "hashCoincidence_trivial shows any H satisfies it — and is superseded, the old theorems are kept); locks (one call = one step), "
             "accessTSGran = 1, no int64 overflow, items < ChunkSize/2 (strings <= 500000 bytes in the closed theorem), slice-storage callbacks. Remaining "
             "partial: damage that makes the file LONGER (appending bytes) is outside the closed theorem (a forged, correctly hashed extra chunk would be "
             "loaded — not a corruption model); the sort of the eviction candidates by access time is an observed input checked by sortedCands, not "
             "derived; the reader half of ChunkedStorage2 interleaved with writes (ReadNext after partial writes) is covered by the correspondence only; "
             "load does not enforce maxSize, so the size theorem is about AddValues and constant limits. Keys are byte-string VALUES in the model (GetValueBytes = GetValue): any "
             "dependence of the real cache on the caller's buffer after a call returned is a digest disagreement and oracle sig=key-aliases-caller-buffer "
             "(seed C21-r3-2; the harness looks every key up through both variants from one reused, overwritten scratch buffer). "
             "Defect found and fixed in /repo (9b6d1e49): the "
             "same new string twice in one AddValues call double-counted sumSize/sumTS; kept as Variant.dupAdd with theorem dupAdd_breaks_accounting."),
    "design_ref": "DESIGN.md §6 C21",
}
