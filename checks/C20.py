"""C20 — metadata replicas converge and name lookups stay correct (DESIGN §6 C20)."""
HARNESS = "./cmd/verif-c20"
DRIVER = "drv_c20"


def gen(c, binary):
    """lean/SH/Gen/C20.lean: chunk format constants, diff limits, event type ids, built-in groups/namespaces as the
    compiler of /repo's working tree sees them"""
    rc, out = c.go_run(binary, ["-mode=gen"])
    ok = rc == 0 and "namespace SH.Gen.C20" in out and out.rstrip().endswith("end SH.Gen.C20")
    c.oblige("regenerate lean/SH/Gen/C20.lean from /repo (verif-c20 -mode=gen)", ok, out[-1500:], kind="tie")
    if ok:
        c.gen("C20", out)
    else:
        c.broken.append("verif-c20 -mode=gen failed:\n" + out[-1500:])
    return ok


def run(c):
    c.rule = ("one case = a source journal plus 3-5 real JournalFast+MetricsStorage replicas in a tree (compact aggregator, its agents, "
              "optionally a non-compact aggregator / a compact replica of the compact one); 20-70 random ops: source create/edit/rename/"
              "name reuse/enable-disable/malformed event, deliver with random item/byte limits and cut, Save, restart from a file "
              "truncated at a random or chunk-boundary offset; 1 in 12 cases carries 90-260 KB payloads so that files span several "
              "chunks; then everything is drained. Non-trivial = the history contains a rename, a reuse of a freed name, a truncated "
              "reload or a compact batch that was skipped entirely; distinct by op-sequence hash")
    c.assumptions += [
        "an event without its version is an opaque content number; its xxh3 hash, TL size, the result of compactJournalEvent and of "
        "diff+TL transport, and whether the JSON converter accepts it are observed on the real code and passed to the model (`def` lines)",
        "Go map order / unstable sort: the relative order of two enabled user groups with the same name (transient replica state) is "
        "observed and passed as the `tie` argument; the model uses it only between equal names",
        "file system and xxh3 chunk checksums are trusted: a truncated file is a prefix, a complete chunk is read back intact "
        "(bit flips are C21's subject)",
        "compaction of METRICS is modelled field by field (SH.Model.CompactMetric) on the value after MetricMetaFromEvent; the JSON "
        "parser + RestoreCachedInfo and json.Marshal are exercised, not modelled; in the journal model the compact content number is "
        "still a table column whose fields are tied to the model by the `cf` correspondence",
        "transport and compactJournalEvent are modelled as FUNCTIONS of the event (a table): the harness calls the real functions "
        "7 times per generated content and reports compaction-not-deterministic / transport-not-deterministic if two results differ, "
        "and stored-content-unpredicted if a journal ever holds an event outside the closure computed by those functions",
        "names in generated histories are ASCII (Go compares bytes, the model compares code points)",
        "one model step = one call (applyUpdate / diff / Save / Load) — the mutexes of JournalFast and MetricsStorage are trusted",
    ]
    binary = c.go_build(HARNESS)
    if binary:
        gen(c, binary)
    # helper developments (moved out of / added next to Props/C20.lean) are audited like the property file itself
    c.prove("SH.Lemmas.Journal", extra_files=["SH/Model/Journal.lean", "SH/Gen/C20.lean"])
    c.prove("SH.Lemmas.JournalConv")
    c.prove("SH.Lemmas.JournalChain")
    c.prove("SH.Props.C20", extra_files=["SH/Model/Journal.lean", "SH/Model/MetaIndex.lean", "SH/Model/CompactMetric.lean", "SH/Gen/C20.lean"])
    drv = c.driver(DRIVER)
    if binary and drv:
        # the minimal histories first (4 of the name-reuse defect, 1 with draft tags through two compact siblings),
        # then the generated ones
        rc, out = c.go_run(binary, ["-n=7", "-mode=witness"])
        c.harness_ok(rc, out, "verif-c20 -mode=witness")
        c.correspond(out, drv, label="witness")
        rc, out = c.go_run(binary, [f"-n={c.n(300, 4000)}"], timeout=1500)
        c.harness_ok(rc, out, "verif-c20")
        c.correspond(out, drv)

    def search():
        if not binary:
            return
        for k in range(1, 6):
            rc, out = c.go_run(binary, [f"-n={c.n(600, 2000)}", f"-seed={c.seed + 1000 * k}", "-mode=small"], timeout=1500)
            c.collect(out, label="small")
            if c.oracle:
                return
    return search


META = {
    "level": "proof",
    "technique": ("Lean 4 theorems over an executable model of JournalFast (add/diff/applyUpdate/compaction/save/load) and of "
                  "MetricsStorage.ApplyEvent (id and name indexes, group assignment), induction over event sequences, histories and "
                  "op schedules; op-by-op differential correspondence of the compiled model with a real replica tree; direct oracle "
                  "on the real objects"),
    "text": ("Kernel-checked: (1) `converges`: for one hop of the chain (an upstream journal that only grows — the source — and a "
             "replica, compact or not, with its file) and EVERY schedule of upstream edits, deliveries with any item/byte limits cut "
             "anywhere, Save and restarts from the file truncated at any offset, the invariant 'replica complete up to its "
             "loaderVersion, nothing foreign, one entry per entity, hash = xor of entry hashes' holds, and whenever the replica's "
             "loaderVersion reaches the upstream version it holds exactly the upstream's non-discarded entities, each with the "
             "transported (and, for compact journals, compacted) content of the upstream's latest version, with equal versions for "
             "non-compact replicas; (2) `replicas_same_hash`: two replicas of the same kind over the same upstream history, each with "
             "its own schedule, have equal state hashes whenever both have caught up; (3) `lookup_by_name_current` / "
             "`lookup_by_name_checked_source`: for every history of a source that checks the name at the moment of the edit (renames "
             "and reuse of freed names included) and every increasing sub-sequence of it applied in any batching, every metric / "
             "group / namespace the replica holds under a name that has been its source name since the replica's version is found by "
             "that name, and every name-index entry is the id-index entry of that name (false for the pinned code: `decide` witness); "
             "(4) `groups_ordered_every_batch` + `group_assignment` + `calcGroup_longest_prefix`: after every ApplyEvent batch "
             "groupsOrdered is name-descending and exactly the enabled user groups, and each metric's group is the one with the longest "
             "name that is a prefix of the metric name; (5) `delivery_never_skips`, `truncate_keeps_prefix`, `load_inv`; (6) `two_hop_converges_no_skip` / "
             "`two_hop_agents_same_hash`: source -> aggregator -> agent with the invariant stated relative to the SOURCE (a journal "
             "at depth d holds only source events transported d times with their source versions, complete up to its loaderVersion), "
             "every schedule including restarts of the aggregator AND of the agent from old and/or truncated files (agent "
             "transiently ahead of the rolled-back aggregator): whenever the agent's loaderVersion reaches the source version it "
             "holds exactly the source's current entities, doubly transported, same versions, and agents have equal hashes — proved "
             "for chains without the compaction skip (non-compact journals); (6b) `load_any_cut` (+ `load_strict_prefix_lv`, `load_err_iff_tail`): a saved "
             "file cut at ANY offset, in particular exactly at a chunk boundary where the read ends without error, reloads into a "
             "journal that is Faithful up to the loaderVersion it reports, and that loaderVersion is the last event read (never the "
             "header's) whenever events are missing; (6c) the compact form is MODELLED, no longer an observed input: "
             "SH.Model.CompactMetric = MakeCompactMetric + keepCompactMetricDescription (description kept for the four remote-config / "
             "dump names and for marked descriptions) + the event head; `compactForm_idem`, `compactForm_desc_special`, "
             "`compactForm_ignores`, and `converges_modelled_compact` (a caught-up compact replica holds compactForm of the "
             "upstream's latest version, for every schedule); for every generated metric content the fields of the real compact event "
             "are compared with the model's (`cf` lines), and an independent Go reference drives the oracle "
             "replica-compact-form-differs on synced replicas behind compact journals; (6d) `two_hop_converges_compact_no_rollback`: source -> aggregator of "
             "either kind (compact included) -> agent of either kind, every schedule with restarts of the AGENT from old/truncated "
             "files but no restart of the aggregator: when the aggregator has caught up with the source and the agent with the "
             "aggregator, the agent holds exactly the source's non-discarded entities in doubly stored form; (7) "
             "`two_hop_compact_rollback_counterexample`: for a "
             "COMPACT aggregator the statement is false of the code (decide witness, replayed on the real chain). The model is "
             "tied to the code by replaying each generated history op by op on real JournalFast/MetricsStorage objects and on the "
             "compiled Lean model and diffing versions, hashes, journal order and all index maps; the hypotheses of (1) about the "
             "observed transport/compaction functions (they keep type and id, discard per entity, positive sizes) are checked on the "
             "real code for every generated content (oracle table-assumption-violated), and so is the assumption that transport and "
             "compaction are functions of the event (oracles compaction-not-deterministic, transport-not-deterministic, "
             "stored-content-unpredicted; metrics with 2-8 tags_draft entries and two compact aggregators of one source are generated "
             "for that purpose)."),
    "note": ("Trusted: Lean kernel; correspondence on generated histories (quick 300, thorough 4000 cases of 20-70 ops); contents, hashes, "
             "compaction and transport results are inputs observed on the real code. KNOWN FINDING (unchanged tree, "
             "known_findings.txt sig=agent-ahead-of-rolled-back-compact-upstream and its two hash variants): a compact journal "
             "(aggregator) that restarts from an older file skips, as unchanged, an entity whose compact form returned (A -> B -> A "
             "at the source) to what the file holds; it keeps the file's version number, which is below the loaderVersion of agents "
             "that received B before the restart, so those agents are never sent A and stay different from the aggregator and from "
             "later agents although everybody is synced. No small safe fix: the loader's lastKnownVersion is the version of the last "
             "returned event (not the source's current version) and the long poll never returns empty, so the journal cannot tell "
             "when its catch-up after a restart is over and the skip is safe again; a repair needs a protocol change (agent "
             "detects an upstream behind itself and resyncs, or the skip records the version range it covers). Partial: two-hop "
             "convergence with aggregator rollbacks is proved only for skip-free chains; a compact aggregator that is never "
             "rolled back is `two_hop_converges_compact_no_rollback`. STILL MISSING: `two_hop_converges_compact_no_return` — a compact "
             "aggregator WITH roll-backs under the hypothesis that an entity's compact form never returns to an earlier value "
             "(excludes exactly the known finding's A->B->A shape); its statement is kept as a comment in Props/C20 section N; it needs "
             "a run-compressed invariant relative to the source (one stored entry stands for a range of source versions with "
             "identical stored form) preserved by the skip, by aggregator restarts and by deliveries to an agent ahead of the "
             "aggregator. Proved of it (entry level, `two_hop_converges_compact_no_return_partial`, `covers_skip`, `covers_shrink`, "
             "`covers_restart_then_skip`, `covers_fresh`): a stored entry read as a run of source versions with identical stored form is "
             "shortened by a restart and extended by the skip of a later version with the same form (needs NoReturn; fails on the "
             "finding's history); missing: lifting this to a journal/chain invariant through applyUpdate and deliveries. A compact replica may keep an older "
             "version number for an entity whose compact form did not change (content equality, not version equality, is proved "
             "for compact journals). Earlier defect (fixed in /repo as ebafde2e, fixes/C20-name-index.diff): ApplyEvent deleted the "
             "old name unconditionally on rename and rebuilt the metric name index from the id index in map order."),
    "design_ref": "DESIGN.md §6 C20",
}
