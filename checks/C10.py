"""C10 — shard and replica routing is deterministic and consistent end to end (DESIGN §6 C10)."""
import os

HARNESS = "./cmd/verif-c10"
DRIVER = "drv_c10"
REPO = os.environ.get("VERIF_REPO", "/repo")


def gen(c, binary):
    """lean/SH/Gen/C10.lean: FutureWindow/MaxShortWindow as compiled + the text of goTicker's skip guard (go/parser)"""
    rc, out = c.go_run(binary, ["-mode=gen", f"-arg={REPO}"])
    ok = rc == 0 and "namespace SH.Gen.C10" in out
    c.oblige("regenerate lean/SH/Gen/C10.lean from the working tree (verif-c10 -mode=gen)", ok, out, kind="tie")
    if ok:
        c.gen("C10", out)
    else:
        c.broken.append("verif-c10 -mode=gen failed:\n" + out[-2000:])
    return ok


def run(c):
    c.rule = ("case 0: exhaustive grid strategy x shard count (1..12 quick, 1..64 thorough) x by-metric count x fixed keys x "
              "secondary keys x shard_num x metric ids, plus every shard index as fixed key / fixed_shard number under "
              "by-metric count 1, ns/2, ns-1, ns; case 1: every (second mod 6, alive mask) incl. the uint32 wrap; "
              "other cases: random shard configurations (i%4=0), random 6-second replica windows (i%4=1), and schedules of "
              "clock advances (forward, back, jumps) / run-time ShortWindow changes (+-1, +-2, anywhere in 3..MaxShortWindow, "
              "set the way the remote config sets configR) / sends against a REAL Aggregator (advanceRecentBuckets + "
              "handleSendSourceBucket, i%4=2,3). "
              "non-trivial = the two grids, shard cases with a secondary shard, replica windows, aggregator schedules that "
              "saw a recent accept, a rounded accept and a historic accept; distinct by op-sequence hash")
    c.assumptions += [
        "xxh3 is not modelled: the key hash observed from Key.XXHash is passed to the model as data; the bytes it hashes "
        "(MarshalAppend output minus its first 4 bytes) ARE modelled and compared byte for byte (op 'key'); independence of "
        "the timestamp is a theorem for every hash function and is also checked on the real code by the direct oracle",
        "goTicker is an endless wall-clock loop and cannot be called: its 'not ours -> continue' guard is pinned as source text "
        "(go/parser) in SH/Gen/C10.lean and compared with the expression the model uses (theorem gen_ticker_guard)",
        "the aggregator handler is the real one, called with an empty source bucket through rpc.HandlerContext.ResetTo "
        "(the rpc package's mock seam); its built-in agent is created by agent.MakeAgent but never Run",
        "agreement of agent and API shard choice assumes both sides are given the same by-metric shard count "
        "(--shard-by-metric-shards is documented as a copy of the aggregator's value) and the same metric id",
    ]
    binary = c.go_build(HARNESS)
    if binary:
        gen(c, binary)
    c.prove("SH.Props.C10", extra_files=["SH/Model/Routing.lean", "SH/Gen/C10.lean"])
    drv = c.driver(DRIVER)
    if binary and drv:
        rc, out = c.go_run(binary, [f"-n={c.n(1000, 40000)}"])
        c.harness_ok(rc, out, "verif-c10")
        c.correspond(out, drv)
    c.extra["exhaustive"] = True

    def search():
        if not binary:
            return
        for k in range(1, 6):
            rc, out = c.go_run(binary, [f"-n={c.n(6000, 40000)}", f"-seed={c.seed + 1000 * k}"])
            c.collect(out)
            if c.oracle:
                return
    return search


META = {
    "level": "proof",
    "technique": ("Lean 4 theorems (omega/decide level, all inputs) over an executable model of sharding.Shard, Agent.shard, "
                  "MetricMetaValue.Shard/Sharded, getShardReplicaForSecond, advanceRecentBuckets and the bucket choice of "
                  "handleSendSourceBucket + differential correspondence against the real functions (incl. a real Aggregator)"),
    "text": ("Kernel-checked for all inputs: the agent's shard is below the shard count; fixed / by-metric sharding gives the "
             "API the same shard; a secondary shard differs from the primary; the spare replica differs from the primary for "
             "every uint32 second and each ordered pair (primary, spare) occurs exactly once in any 6 consecutive seconds; the "
             "rounding loop moves a second forward by at most 2 to one the replica owns; the recent window produced by "
             "advanceRecentBuckets is contiguous; every second the handler accepts is filed into a window bucket whose time "
             "is owned by this replica and at most 2 s later, or under its own time in the historic map (filed_in_own_bucket); "
             "filed_general / round_general drop the hypothesis t+2 < 2^32 and state what the code does at the uint32 wrap "
             "(the last two seconds can be filed into bucket 0..2, witness by decide and in the correspondence). "
             "agent_shard_eq_api_shard: for every configuration with by-metric count >= 1 (equal to, below, or far below the "
             "number of shards) whenever the API (chutil: Sharded(), Shard(byMetric), clamp to the real shard count - pinned as "
             "source text, gen_api_clamp) reads one specific shard, the agent accepts the metric and writes exactly that shard, "
             "incl. fixed keys / fixed_shard numbers above the by-metric count; the variant that compares the primary shard "
             "with the by-metric count (seeded C10-r4-1) is kept as a decide witness. window_always_contiguous: for ANY sequence of ticks with ANY ShortWindow values (raised or lowered at run time) "
             "and any clock values the recent window stays a run of consecutive seconds (advance_window_any is the one-step "
             "form, without the old length assumption). Timestamp independence (shard_ignores_ts): Key.MarshalAppend is modelled byte for byte (op 'key'), the bytes "
             "Key.XXHash hashes are marshal[4:], and for every hash function two keys differing only in the timestamp get "
             "the same primary, flag and secondary; tags_hash_lt_count: with a 64-bit hash the tags_hash shard is below the "
             "by-metric count and accepted. The model is tied to the code by replaying generated cases on the real "
             "functions and on the compiled model."),
    "note": ("Trusted: Lean kernel; correspondence on generated cases (exhaustive grids + random); xxh3 passed as data; goTicker's "
             "ownership test tied syntactically only. xxh3 itself is any function of the hashed bytes; that the real hash is "
             "computed from marshal[4:] is additionally checked on the real code by the oracle."),
    "design_ref": "DESIGN.md §6 C10",
}
