"""C01 — accepted metric data is never silently lost between agent and storage (DESIGN §6 C01)."""
HARNESS = "./cmd/verif-c01"
DRIVER = "drv_c01"


def gen(c, binary):
    rc, out = c.go_run(binary, ["-mode=gen"])
    ok = rc == 0 and "namespace SH.Gen.C01" in out
    c.oblige("regenerate lean/SH/Gen/C01.lean from /repo (constants + decision-site facts via go/parser)", ok, out, kind="tie")
    if ok:
        c.gen("C01", out)
    else:
        c.broken.append("verif-c01 -mode=gen failed:\n" + out[-2000:])
    return ok


def run(c):
    c.rule = ("random fault schedules (INSERT answered 200 / 200+exception header / 500 with header / 500,502,503,504,413 without header / connection closed without answer; lost answer / timeout, aggregator down/up, agent graceful stop or crash, "
              "replica marked dead, historic memory budget nearly used up (exact ballast), disk cache switched off at run time, clock jumps, undecodable requests) over one real agent shard, three real aggregator "
              "replicas and a fake ClickHouse, followed by a fault-free continuation; one real call per model op; "
              "non-trivial = at least one fault AND at least one historic (re)send; distinct by op-sequence hash")
    c.assumptions += [
        "rpc transport replaced by an in-process rpc.Client/HandlerContextConnection pair (the rpc library itself is trusted); "
        "one model step = one run of a real sender / handler / inserter between two blocking points, resumed one at a time",
        "the agent's wall clock is real (about base-300 s) and every generated second lies outside the range in which a decision of "
        "sendRecent/checkOutOfWindow could change during a case (< 80 s); the aggregators' clock is an input",
        "goTicker's conveyor-full branch is not stepped (real-time); goEraseHistoric is exercised by -mode=eraser: the REAL eraser "
        "goroutine (never cancelled) on an agent with 3..5 shards, one shard over its share of the disk limit (must be trimmed) and one "
        "under it while all shards together exceed one share (must be kept); in the model it is the function eraserStep "
        "(not an operation of the composed system; `over` = this shard's file sizes exceed its share, an input); "
        "the first is covered by the -mode=conveyor real-time scenario and a generated decision-site fact",
        "disk cache record format, torn writes and read errors are property C09",
        "generated seconds are small buckets of an almost idle agent (two counter rows with random tag values, 1 + t%3 tags in the "
        "second row) framed by the REAL compress.CompressAndFrame; the harness keeps the candidates whose frame has the stored length "
        "(lz4 size >= raw size: ~99%; ~2.5% of them have lz4 size == raw size, counted in frame.lz4-equals-raw), so a second's size "
        "stays a function of the second (SH.Gen.C01.secBase/secRow); buckets that lz4 shrinks are not generated in the stepped tier; "
        "an INSERT row is recognised by its timestamp followed by an int32 marker tag; about 1 case in 12 is a long outage "
        "(2*MaxConveyorDelay +-3 seconds on disk, two agent restarts with 0..2 pops in between, nothing acknowledged); at most 2 historic senders are busy at a time and each reuses ONE scratch pad for every second it "
        "reads from disk, as goSendHistoric does; a slow ClickHouse answer beyond ClickHouseTimeoutInsert (5 min) is not generated",
        "op `race`: the real goInsert of the first ready bucket is held up between its oldestTime snapshot and its pop of historic "
        "buckets (the harness holds the bucket mutex goInsert takes next) while the real ticker step advances the window again and a "
        "historic request is handled; about 1 case in 8 starts with such a scripted race for a second at the edge of the window; "
        "-mode=oversize (once per run): a shard with --shard-sample-budget 64 MiB gets > 12 MiB of rows in one second through the real "
        "preProcess/sampleBucket/CompressAndFrame, a real recent sender and the real handler",
        "an INSERT counts as done iff the fake endpoint read the whole body and answered HTTP 200 (headers and texts do not count)",
        "the historic memory limit is a 50 MiB constant: the harness adds an exactly accounted ballast to historicBucketsDataSize "
        "(model unit = one generated second's compressed size, model limit 1000 units) and diffs the counter after every op",
        "wake-up discipline on Shard.cond: model Wake (signal = wake one waiter, lost if none) + real-time tier -mode=wakeup with the real "
        "goSendHistoric/goEraseHistoric goroutines and the real flushBuckets clock advance (budget 40 s for an expected ~3 s)",
    ]
    binary = c.go_build(HARNESS)
    if binary:
        gen(c, binary)
    c.prove("SH.Props.C01", extra_files=["SH/Model/Delivery.lean", "SH/Lemmas/Delivery.lean", "SH/Lemmas/DeliveryRace.lean", "SH/Lemmas/DeliveryMain.lean", "SH/Lemmas/DeliveryEraser.lean", "SH/Lemmas/DeliveryLive.lean", "SH/Gen/C01.lean"])
    drv = c.driver(DRIVER)
    if binary and drv:
        rc, out = c.go_run(binary, [f"-n={c.n(240, 2400)}"], timeout=1500)
        c.harness_ok(rc, out, "verif-c01")
        c.correspond(out, drv)
        rc, out = c.go_run(binary, ["-mode=conveyor", f"-n={c.n(1, 3)}"], timeout=300)
        c.harness_ok(rc, out, "verif-c01 -mode=conveyor")
        c.collect(out, label="conveyor")
        rc, out = c.go_run(binary, ["-mode=wakeup", f"-n={c.n(1, 4)}"], timeout=600)
        c.harness_ok(rc, out, "verif-c01 -mode=wakeup")
        c.collect(out, label="wakeup")
        rc, out = c.go_run(binary, ["-mode=oversize", f"-n={c.n(1, 2)}"], timeout=900)
        c.harness_ok(rc, out, "verif-c01 -mode=oversize")
        c.collect(out, label="oversize")
        rc, out = c.go_run(binary, ["-mode=eraser", f"-n={c.n(2, 8)}"], timeout=600)
        c.harness_ok(rc, out, "verif-c01 -mode=eraser")
        c.collect(out, label="eraser")

    def search():
        if not binary:
            return
        for k in range(1, 4):
            rc, out = c.go_run(binary, [f"-n={c.n(600, 3000)}", f"-seed={c.seed + 1000 * k}"], timeout=1500)
            c.collect(out, label="")
            if c.oracle:
                return
    return search


META = {
    "level": "proof",
    "technique": "Lean 4 theorems over an executable message-level model of one agent shard, three aggregator replicas, the wire and the "
                 "storage log (SH.Model.Delivery) + op-by-op differential correspondence with the REAL send path, handler and inserter under "
                 "scripted faults + direct no-loss oracle on the real code + regenerated decision-site facts",
    "text": ("SYSTEM LEVEL, for ALL operation sequences (induction over the op list of the composed model: sends, deliveries, insert "
             "failures, lost answers/timeouts, aggregator down/up, agent graceful stop and crash, replica failover, clock jumps, memory "
             "and disk limits): no_silent_loss — every second handed to the send path is held by the agent (queue, blocked sender, live "
             "disk record), or in the body of a successful INSERT, or deliberately rejected/dropped; ack_after_insert_or_reject — at every "
             "point of every run every discard answer on the wire carries a second already inserted or deliberately rejected; "
             "erase_after_ack — whatever the operation, a flushed second that stops being held is inserted, rejected or in a deliberate-drop "
             "set; answer_matches_sender — request ids never name two seconds; erase_trace (literal trace form of erase_after_ack) — for every "
             "operation other than a process restart, a disk record that is gone afterwards was erased because THAT operation delivered an "
             "answer with discard to the sender blocked on the request carrying the record's second, or because the second left the agent's "
             "historic window (recorded drop); restart_erases_nothing — a restart reads every record back. tickRace is one of the model's operations (a delayed inserter pops with an old "
             "snapshot), covered by the same induction; delayed_inserter_stale_only_older — it classes as stale only buckets older than its "
             "snapshot minus the window, never one newer than the snapshot (decide witness for the wrapped unsigned rewrite); "
             "sampleBudget_fits / sampleBudget_clamp_now — the sampling budget is at most half the aggregator's bucket limit for every "
             "budget source, tied to the regenerated fact that sampleBucket clamps at the top level of its body. eraser_keeps / eraser_drops_only_over_share — the fail-safe eraser pass keeps the "
             "agent invariant, records what it drops, and hands a popped in-window second back to the queue whenever the shard is not over "
             "its own share (regenerated fact: diskUsed comes from s.HistoricBucketsDataSizeDisk()). LIVENESS (partial): "
             "can_always_finish_partial — from every reachable state in which a second is the oldest entry of the historic queue, inside "
             "the agent's window, its primary or spare replica alive and up, accepted into that replica's historic window with no other "
             "historic bucket waiting, the explicit 3-op fault-free schedule finishOps(state) (pop, deliver, clock to oldest+shortWindow+3) "
             "ends with the second in a successful INSERT. The invariant (lean/SH/Lemmas/Delivery.lean, SInv) is "
             "shown to be preserved by each of the 14 model operations. COMPONENT LEVEL, kernel-checked for all inputs of the modelled functions: (1) ack_after_insert_or_reject — the handler answers discard at once only "
             "for a second beyond the newest recent bucket or before oldest-historicWindow, a late recent second is answered WITHOUT discard, a "
             "second inside the window is always parked, and the bucket it is parked in is one this replica's ticker hands to an inserter "
             "(aggDecide_*, roundUp_mod); every answer goInsert sends with discard belongs to a bucket whose rows are in the body of an INSERT "
             "that succeeded or to a stale historic bucket that really is older than the window, and a failed INSERT acknowledges nothing "
             "(insertOne_discard_sound, insertOne_fail_no_ack, takeHistoric_stale_old, insertOne_ok_covers); (2) erase_after_ack — whatever "
             "SendSourceBucket3 returned other than an answer with discard, the sender keeps the second (historic queue or next historic request) "
             "or drops it for one of the two deliberate reasons, and no other disk record is removed (agentContinue_keeps_unless_ack, "
             "agentContinue_keeps_disk_records, toHistoric_holds, toHistoric_disk_holds). The model is tied to /repo by running each generated "
             "fault schedule op by op on the real code (real MakeAgent + disk cache, goSendRecent loop body, sendHistoric, "
             "popOldestHistoricSecondLocked, handleSendSourceBucket3, advanceRecentBuckets, goInsert -> sendToClickhouse against a fake "
             "ClickHouse) and on the compiled model, diffing every request, answer, INSERT body, queue, disk-cache and window state. The direct "
             "oracle evaluates the property itself on the real outputs: no discard answer without a successful INSERT body carrying the second "
             "(or a legitimate rejection), no second leaving the agent without an acknowledgement, nothing silently lost at the end, and an "
             "'undecodable, discard' answer to bytes the agent framed from a valid bucket is a violation (discard-of-valid-bucket), not a "
             "deliberate rejection; held seconds include disk records not yet read back after a restart; after "
             "a fault-free continuation every held second inside the windows is in storage. Memory limit: historicBucketsDataSize equals the "
             "data really queued (appendHist_exact), so a 'memory limit' drop happens only when the queue really is over the limit "
             "(appendHist_drop_legit); diffed after every op and checked by the oracle (historic-size-accounting, false-memory-limit-drop). "
             "Wake-up: with the signalling sites the source has now (regenerated: flushBuckets, appendHistoricBucketsToSend) a consumer is "
             "runnable whenever the head of the historic queue can be popped, for every interleaving of clock, appends and consumers "
             "(wake_invariant, wake_sites_now); dropping the flush signal breaks it (decide witness); the real goroutines are run in real "
             "time on a second saved in the future before a restart (historic-sender-never-woken)."),
    "note": ("PARTIAL: the liveness half is proved only for the sub-class of states of can_always_finish_partial; the full "
             "can_always_finish (any way of being held: blocked sender, unread disk record, deeper queue position; historic backlog at the "
             "replica; seconds inside the recent window; replicas that must come up first) is stated as a comment. It is exercised on the real code by the fault-free finishing phase of every case "
             "(sig not-delivered-after-recovery), by the wake-up tier, and by the wake-up invariant theorem. The safety half (no_silent_loss, "
             "ack_after_insert_or_reject, erase_after_ack) IS proved for all op lists of the model; the model's `lostMem` (seconds that "
             "existed only in memory when the agent process died) counts as a deliberate-loss set. Trusted/modelled: the rpc library (replaced by an "
             "in-process rpc.Client / HandlerContextConnection pair), Go scheduling (senders resumed one at a time), the agent's real wall "
             "clock (cases generated so that no clock-dependent decision can flip within 80 s), goTicker's dispatch loop (re-stated in the "
             "harness accessor Advance/Insert; its conveyor-full branch is exercised in real time by -mode=conveyor and pinned by a generated "
             "fact), goEraseHistoric (disk-limit drops) and real binaries/sockets are not exercised. An agent crash loses seconds that exist "
             "only in memory (SaveSecondsImmediately=false or no --cache-dir): counted as deliberate, reported in the model's lostMem."),
    "design_ref": "DESIGN.md §6 C01",
}
