"""C19 — tag mappings form a stable bijection and creation obeys flood limits (DESIGN §6 C19).

The harness and the overlay accessors are shared with C15 (go/C15/overlay, cmd/verif-c15 -mode=c19)."""
import vf

HARNESS = "./cmd/verif-c15"
DRIVER = "drv_c19"
REPLAY_ARGS = ["-mode=c19"]


def _use_c15_overlay(c):
    # cmd/verif-c15 and internal/metadata/zz_verif_c15.go live in go/C15/overlay; build C19's binary from that overlay
    c.overlay_path = lambda: vf.Check("C15", []).overlay_path()


def run(c):
    _use_c15_overlay(c)
    c.rule = ("random histories of 15-70 requests against the REAL metadata.DBV2 with random budgets (max 1..8|1000, step 1|7|60|3600 s, bonus 0|1|2|10, "
              "global budget 0|2|5|10^6) and a scripted clock (no move, < 1 step, 1-3 steps, hundreds of steps, backwards, around and beyond 2^32): "
              "get-or-create over 1-4 metrics and 4-40 keys, PutMapping (used/unused keys and ids, ids <= 0), batched delete (present, absent, duplicate ids), "
              "ResetFlood (<=0, 1, around max, ceiling-1, ceiling=10000, ceiling+1, 2x, MaxInt32; the stored flood row is read back after every reset and is "
              "part of the compared observation), by-value/by-id/GetNewMappings reads, orderly restarts (Close + OpenDB on the same files: "
              "lastMappingIDToInsert starts from 0), park/resume (one get-or-create request is held inside GetOrCreateMapping before its eng.Do via the "
              "Options.Now seam while other requests are applied, then released; every 6th case walks to the global-budget boundary, parks a request, exhausts "
              "the global and the metric's budget and resumes), state dumps; every 6th case is a pure stream of 60 "
              "calcBudget + roundTime calls at the boundaries (old around 0/max, unsigned wrap of now-last). Non-trivial = a history with a flood-limit "
              "error after the global budget was exhausted, or with a deletion; distinct by op-sequence hash")
    c.assumptions += [
        "one model step = one eng.Do callback (see C15), and a history is the order in which requests are APPLIED: the global-budget decision is read "
        "inside that step (park/resume cases check that the code does not decide from a value read at function entry); SQLite trusted: UNIQUE/PRIMARY KEY, AUTOINCREMENT never reuses a rowid, INSERT OR REPLACE deletes conflicting rows",
        "configuration is not an input: stepSec >= 1, budgetBonus >= 0, maxBudget >= 1 (with maxBudget = 0 the first creation of a metric still succeeds and stores -1)",
        "flood bound is read as: creations <= max(maxBudget, reset value) + bonus * elapsed steps, elapsed steps measured by a non-decreasing clock; "
        "for a clock that moves backwards the code's unsigned subtraction refills the budget to maxBudget and the oracle allows exactly that",
        "ids stay below 2^31 (the int32 truncation of SQLite rowids is not modelled); keys are short (GetNewMappings byte limit not modelled)",
    ]
    c.prove("SH.Props.C19", extra_files=["SH/Model/Meta.lean", "SH/Lemmas/MetaFlood.lean"])
    drv = c.driver(DRIVER)
    binary = c.go_build(HARNESS, name="verif-c19")
    if binary and drv:
        # corpus first: minimised histories of past findings / quirks, replayed through -mode=script
        import glob, os
        for f in sorted(glob.glob(os.path.join(os.path.dirname(os.path.abspath(__file__)), "..", "corpus", "C19", "*.ops"))):
            rc, out = c.go_run(binary, ["-mode=script", "-arg=" + os.path.abspath(f)])
            c.harness_ok(rc, out, "verif-c15 -mode=script " + os.path.basename(f))
            c.correspond(out, drv, label="script:" + os.path.abspath(f))
        # several harness processes in parallel (each a different seed derived from VERIF_SEED), one correspondence each
        from concurrent.futures import ThreadPoolExecutor
        chunks, per = c.n((4, 100), (8, 1500))
        def one(k):
            return c.go_run(binary, ["-mode=c19", f"-n={per}", f"-seed={c.seed * 1000 + k}"], timeout=1500)
        with ThreadPoolExecutor(chunks) as ex:
            outs = list(ex.map(one, range(chunks)))
        for rc, out in outs:
            c.harness_ok(rc, out, "verif-c15 -mode=c19")
            c.correspond(out, drv)

    def search():
        if not binary:
            return
        for k in range(1, 6):
            rc, out = c.go_run(binary, ["-mode=c19", f"-n={c.n(2000, 8000)}", f"-seed={c.seed + 1000 * k}"], timeout=1500)
            c.collect(out, label="c19")
            if c.oracle:
                return
    return search


def replay(c):
    import json, sys
    _use_c15_overlay(c)
    rp = json.load(open(c.replay))
    label = rp.get("label") or ""
    if label.startswith("script:"):
        binary = c.go_build(HARNESS, name="verif-c19"); drv = c.driver(DRIVER)
        rc, out = c.go_run(binary, ["-mode=script", "-arg=" + label[len("script:"):]])
        print("---- implementation (current tree)"); print(out)
        cases, _, _ = vf.parse_stream(out)
        feed = "\n".join(l for cs in cases for l in [cs.header] + cs.ops) + "\n"
        print("---- model"); print(vf.sh([drv], stdin=feed)[1])
        return 1 if "\n! " in "\n" + out else 0
    import types
    return vf.generic_replay(c, types.SimpleNamespace(HARNESS=HARNESS, DRIVER=DRIVER, REPLAY_ARGS=REPLAY_ARGS))


META = {
    "level": "proof",
    "technique": ("Lean 4 theorems over an executable model of getOrCreateMapping/putMapping/delete/ResetFlood/calcBudget (invariants by induction over "
                  "all request histories and clocks) + op-by-op differential correspondence with the real DBV2 + direct token-bucket oracle on the real replies"),
    "text": ("Kernel-checked for every history: the mapping table is a bijection (ids and keys unique); get-or-create of a mapped key returns its id and "
             "changes nothing; only put/delete touch an existing pair; ids handed out by get-or-create are fresh (greater than every id ever present) so "
             "deleted ids are never reused. FLOOD BOUND, full strength (flood_bound): for every span of every mixed history with restarts (get-or-create for any "
             "metrics/keys, put, delete, reset-flood of other metrics, entity saves, reopen) that starts with the global budget exhausted, and every metric m "
             "whose requests see a non-decreasing clock in [t0,T], T<2^32: #created(m) <= max(maxBudget, remaining budget of m at the start) + bonus*(T/step - t0/step); "
             "ACROSS RESETS (flood_bound_across_resets): with any number of reset-flood requests of m inside the span, "
             "#created(m) <= max(maxBudget, budget at start) + SUM over those resets of max(maxBudget, value the reset sets, capped at 10000 as the code caps it) "
             "+ bonus*(T/step - t0/step); a reset stores exactly min(requested value, 10000), never more than the reply reports (reset_budget_le_ceiling); "
             "the remaining budget is <= max(maxBudget, 10000) in every reachable state (budget_bounded); 'exhausted' is preserved by every operation; frame lemma "
             "hstep_row: only a reset of m or a successful creation for m writes m's row, the latter as exactly one calcBudget attempt; a request with no budget "
             "left answers flood-limit and changes nothing (beyond_budget_is_flood_error)."),
    "note": ("Trusted: Lean kernel, SQLite, model<->code correspondence (quick 400, thorough 12000 histories + corpus). Hypotheses of flood_bound / flood_bound_across_resets, each shown necessary "
             "by a kernel-checked witness: (flood_bound only) no reset of m inside the span; non-decreasing clock (backwards_clock_breaks_bound: the uint32 subtraction now-lastTimeUpdate "
             "wraps and refills the budget to maxBudget-1, wrap_refills states exactly when); stepSec>=1, bonus>=0, maxBudget>=1 (zero_budget_creates). The bound uses "
             "max(maxBudget, budget) rather than the budget itself because ResetFlood stores the UNROUNDED time: after a reset to a value <= maxBudget the next creation "
             "in the same step wraps as well (observation 1 in Props/C19, corpus/C19/reset-then-create-same-step.ops); still within the property as read here. "
             "Restart is modelled (reopen: lastMappingIDToInsert := 0, so the first creation after a restart is flood-limited even inside the global budget: "
             "corpus/C19/reopen-drops-global-budget-exemption.ops) and exercised by the correspondence. flood_bound_partial (single-row bucket) is kept. "
             "Oracle on the stored row after every reset: reset-budget-above-ceiling / reset-budget-above-reported; thorough tier additionally runs one case "
             "with a MaxInt32 reset followed by ceiling+50 real creations (exactly 10000 may succeed). The global-budget decision point is explicit: getOrCreate takes no pre-read argument; getOrCreateStale (decision from an "
             "entry-time snapshot, seeded C19-r5-1) has decide witnesses of 3 creations against a budget of 1. Not modelled: int32 truncation of ids >= 2^31, GetNewMappings byte limit, crashes (C17)."),
    "design_ref": "DESIGN.md §6 C19",
}
