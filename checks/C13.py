"""C13 — all client wire formats decode the same batch identically and safely (DESIGN §6 C13)."""
HARNESS = "./cmd/verif-c13"
DRIVER = "drv_c13"


def gen(c):
    """regenerate lean/SH/Gen/C13.lean (MaxTCPFrameBody as the compiler sees it) from /repo's working tree"""
    b = c.go_build(HARNESS)
    if b:
        rc, out = c.go_run(b, ["-mode=gen"])
        if rc == 0 and "namespace SH.Gen.C13" in out:
            c.gen("C13", out)
        else:
            c.broken.append("verif-c13 -mode=gen failed: " + out[-500:])
    return b


def run(c):
    c.rule = ("cases: (60%) a random batch (0-16 metrics, every optional-field combination, boundary string/collection sizes, "
              "arbitrary float bit patterns, int64 at every width) encoded by the repo's TL writer, tinylib/msgp, the repo's pb code "
              "(proto.Marshal) and two JSON writers, plus 3 re-layouts by other client styles (msgpack widths/bin keys/float32/shuffled/"
              "unknown keys; protobuf unpacked/split/padded varints/unknown fields+groups; TL with unknown mask bits) and concatenated "
              "batches; (20%) 6 damaged encodings (flip/insert/delete/truncate/length markers); (20%) noise with each format's first "
              "bytes, length-header bombs (2^16..2^32-1 elements at every collection site of every format) and ~35 packets aimed at each "
              "rarely taken error branch; (5%) a TCP connection to the real receiver over loopback: 2-7 frames with body sizes 0, 1, small, "
              "MaxTCPFrameBody-3..MaxTCPFrameBody (valid batches padded to the exact size), MaxTCPFrameBody+1.., a truncated tail, written in one piece / "
              "split at header and body boundaries / in random pieces. (20% of cases) a SEQUENCE of 5-9 different batches through one reused parser+batch, formats interleaved (TL/msgpack/pb/hand-pb/JSON, "
              "same format repeated half of the time), large fully populated packets first, then packets with zero scalars, empty strings/arrays, omitted "
              "fields and histogram buckets with zero value or count; each decode is diffed against the model's decode of that packet alone and against a "
              "fresh parser (stale-state-across-packets). After every batch 3 packets without metrics (empty maps, no metrics key, "
              "empty TL/JSON/pb) go through the same batch object, and every packet is also decoded by a fresh parser (stale-state oracle). Every packet goes through the real parser.parse in a child process (RLIMIT_AS 3 GiB, 60 s watchdog) "
              "into one reused batch per case. non-trivial = batch with >=1 metric having tags and an optional field decoded in all formats / "
              "a damaged packet rejected inside a decoder / bombs; distinct by op-sequence hash")
    c.assumptions += [
        "JSON lexing (easyjson jlexer + generated TL JSON readers) is not modelled: detection of '{' is; JSON equality with the other formats is decided by the direct oracle on the real code only",
        "floats are bit patterns; float32->float64 widening (msgpack float32) is modelled as the hardware does it (signalling NaN quieted) and checked by the correspondence on this machine",
        "allocation sizes are not observable exactly: the model's `alloc` (largest element count passed to make) is tied to the code by the crash / amplification oracle, not by the diff",
        "TCP framing: kernel socket behaviour (how many bytes one Read returns) is modelled as 'any chunking'; the 15 s no-progress deadline decides 'hang'",
        "msgp.Skip nesting beyond 400 levels and protowire groups beyond 10050 levels are not exercised by the correspondence",
    ]
    binary = gen(c)
    c.prove("SH.Props.C13", extra_files=["SH/Model/Wire.lean", "SH/Lemmas/Wire.lean", "SH/Lemmas/WireMP.lean", "SH/Lemmas/WirePB.lean",
                                           "SH/Lemmas/WirePB2.lean", "SH/Lemmas/WirePB3.lean", "SH/Lemmas/WirePB4.lean",
                                           "SH/Lemmas/WireFuel.lean", "SH/Lemmas/WirePBFuel.lean", "SH/Lemmas/WireAlloc.lean", "SH/Gen/C13.lean"])
    drv = c.driver(DRIVER)
    if binary and drv:
        # thorough: 6 chunks with derived seeds (the streams are tens of MB each; keep them out of memory one at a time)
        chunks = [(c.seed, 700)] if c.tier != "thorough" else [(c.seed + 7919 * k, 2500) for k in range(6)]
        for seed, n in chunks:
            rc, out = c.go_run(binary, [f"-n={n}", f"-seed={seed}"], timeout=2400)
            if not c.harness_ok(rc, out, "verif-c13"):
                break
            c.correspond(out, drv)
            del out

    def search():
        if not binary:
            return
        for k in range(1, 6):
            rc, out = c.go_run(binary, [f"-n={c.n(3000, 20000)}", f"-seed={c.seed + 1000 * k}"], timeout=2400)
            c.collect(out, label="")
            if c.oracle:
                return
    return search


META = {
    "level": "proof",
    "technique": ("Lean 4 theorems over an executable model of parser.parse, the TL / MessagePack / Protobuf decoders, the canonical client "
                  "encoders and the TCP frame splitter (round trips by induction over batches, detection, termination, allocation bound, "
                  "chunking independence) + packet-by-packet differential correspondence with the real decoders and encoders + direct "
                  "cross-format / stale-state / crash / hang oracle (child process, real TCP receiver over loopback)"),
    "text": ("Kernel-checked for ALL well-formed batches and both code variants: tl_roundtrip, msgpack_roundtrip, pb_roundtrip (with the varint "
             "round trip and the unpacked value/unique layouts) and hence all_formats_agree: parser.parse detects the TL, MessagePack and "
             "Protobuf encodings of a batch as their formats, reports no error and delivers the same name/tags/counter/ts/values/uniques/"
             "histogram in order. Detection from the first bytes (both directions). Safety for ALL byte strings (decode_total): every model "
             "function is total; parse_terminates - no reader of the TL, MessagePack or Protobuf decoder ever exhausts the fuel the model gives "
             "it (len+1 per loop, len+1 for msgp.Skip, 2*len+2 for protowire's group skipper, by simultaneous induction), so every loop ends by "
             "consuming input or a real error; allocation bounds for all three decoders: msgpack_alloc_bounded (false on the pinned tree: 14-byte "
             "witness), tl_alloc_bounded and pb_alloc_bounded via instrumented readers whose result is proved identical to the model readers "
             "(every make size after CheckLengthSanity / in StringReadBytes, every append growth step <= packet length). TCP framing: deframe . "
             "frame = id, any chunking of any stream delivers the same frames with a buffer >= 4+MaxTCPFrameBody (constant regenerated from /repo), "
             "and an oversize header always closes the connection (never hangs). The model (decoders AND the encoders used in the theorems) is "
             "tied to /repo by decoding every generated packet with the real parser.parse and the compiled model and diffing format, error class, "
             "HandleParseError flag and every delivered metric field, by comparing the model encoders with the real encoders byte for byte, and by "
             "replaying TCP streams through the real receiver."),
    "note": ("Partial: (a) JSON is outside the Lean model (oracle only; known finding json-tag-key-not-unescaped in generated code); "
             "(b) parse_terminates / decode_total are stated for variants with the MessagePack length check (the current code); for the pinned "
             "tree's MessagePack decoder only the allocation counterexample is proved; (c) the TL/Protobuf allocation amounts are those of the "
             "instrumented readers tlBatchA/pbBatchA (SH/Lemmas/WireAlloc.lean): their result component is proved equal to the corresponded model "
             "readers, but the amounts themselves (which make/append the Go code performs) are tied to the code by reading plus the crash/"
             "amplification oracle, not by the diff; (d) pb_roundtrip assumes each metric's encoding is < 2^32 bytes. "
             "Genuine defects found on the pinned tree and fixed in /repo: msgpack allocation from untrusted lengths, protobuf unpacked unique / swallowed "
             "packed error (model = fixed behaviour, old behaviour kept as Variant.orig with decide witnesses). "
             "Trusted: Lean kernel, generator reach (distribution printed), Go runtime and kernel sockets, msgp/protowire versions in go.sum (modelled from source)."),
    "design_ref": "DESIGN.md §6 C13",
}
