"""C29 — query admission: round-robin queue and weighted semaphore (DESIGN §6 C29)."""
HARNESS = "./cmd/verif-c29"
DRIVER = "drv_c29"


def run(c):
    c.rule = ("random schedules of acquire/cancel/release/adjust over 1-5 users (even cases: queue) and of "
              "acquire/try/cancel/release/setSize/force (odd cases: semaphore), one real call per model op; "
              "non-trivial = capacity (size) changed while some call was parked; distinct by op-sequence hash")
    c.assumptions += ["one model step = one critical section under the object's mutex (Go runtime, sync.Mutex, channels trusted)",
                      "the order of several grants inside one critical section is not observable; compared as a set"]
    c.prove("SH.Props.C29", extra_files=["SH/Model/RRQueue.lean", "SH/Model/Semaphore.lean"])
    drv = c.driver(DRIVER)
    binary = c.go_build(HARNESS)
    if binary and drv:
        rc, out = c.go_run(binary, [f"-n={c.n(600, 20000)}"])
        c.harness_ok(rc, out, "verif-c29")
        c.correspond(out, drv)

    def search():
        if not binary:
            return
        for k in range(1, 6):
            c.seed_backup = c.seed
            rc, out = c.go_run(binary, [f"-n={c.n(3000, 20000)}", f"-seed={c.seed + 1000 * k}"])
            c.collect(out, label="")
            if c.oracle:
                return
    return search

META = {
    "level": "proof",
    "technique": "Lean 4 theorems over an executable state-machine model (induction over schedules) + step-by-step differential correspondence with the real Queue/Weighted",
    "text": ("Kernel-checked theorems for every schedule: grants only below capacity, work conservation (a parked query is granted "
             "whenever capacity frees, including AdjustCapacity), no capacity leak (active = granted - released), no overtaking (ghost-monitor invariant over every schedule), semaphore never over "
             "size, FIFO prefix admission, cancel leaves cur/size unchanged. The model is tied to the code by replaying each generated "
             "schedule op-by-op on the real objects and on the compiled Lean model and diffing active/cap/waiting/grant sets."),
    "note": ("Trusted: Lean kernel, model<->code correspondence on generated schedules (quick 600, thorough 20000), Go mutex/channel semantics "
             "(one critical section = one model step). The no-overtake clause is proved through a ghost monitor (`bad` flag) carried by the model state."),
    "design_ref": "DESIGN.md §6 C29",
}
