"""C26 — user-supplied filter values cannot change the structure of storage queries (DESIGN §6 C26)."""
HARNESS = "./cmd/verif-c26"
DRIVER = "drv_c26"


def run(c):
    c.rule = ("one case = one queryBuilder (mode series/tagValues/tagValueIDs, metric nil or with 0-48 tags incl. raw/raw64/prekey, "
              "0-4 positive and 0-4 negative tag filters with 0-5 values each: mapped+string, string-only, mapped-only, the empty value, "
              "zero value, id -2/0/int64 extremes, optional regular expression) built from hostile strings (quotes, backslashes, NUL/"
              "control bytes, invalid UTF-8, SQL fragments, trailing backslash); the REAL writeWhere text, its literal scan, the scan of "
              "the complete query body and the selection of 8 rows are compared with the Lean model; non-trivial = some filter string "
              "contains a quote or backslash, or a regex / empty value / raw tag / raw64 tag is present; distinct by op-sequence hash")
    c.assumptions += [
        "ClickHouse's single-quoted literal lexer/decoder is modelled from its source as remembered (Lexer.cpp quotedString, "
        "ReadHelpers.cpp parseComplexEscapeSequence): '' -> ', \\x.., \\N, named escapes, unknown escapes keep the backslash; "
        "ClickHouse itself is not run",
        "match() is an uninterpreted predicate of (pattern, subject): the property needs only that the original pattern reaches it",
        "row semantics of IN / NOT IN / = / AND / OR / NOT on non-NULL Int and String columns as in standard SQL",
        "a row's integer value for a tag is the value of the integer expression the builder itself uses for that tag in the where-clause "
        "(column naming: tagN / pre_tag / _prekey / _tagN / raw64 bitOr expression is covered by text correspondence only)",
        "with a regular expression the caller only passes string values the expression matches (promql engine getTagValues loop); "
        "the semantic oracle and theorem carry this hypothesis",
    ]
    c.prove("SH.Props.C26", extra_files=["SH/Model/Sql.lean"])
    drv = c.driver(DRIVER)
    binary = c.go_build(HARNESS)
    if binary and drv:
        rc, out = c.go_run(binary, [f"-n={c.n(3000, 60000)}"])
        c.harness_ok(rc, out, "verif-c26")
        c.correspond(out, drv)

    def search():
        if not binary:
            return
        for k in range(1, 6):
            rc, out = c.go_run(binary, [f"-n={c.n(6000, 30000)}", f"-seed={c.seed + 1000 * k}"])
            c.collect(out, label="")
            if c.oracle:
                return
    return search


META = {
    "level": "proof",
    "technique": ("Lean 4 theorems over an executable model of the where-clause writer and of ClickHouse's quoted-literal lexer "
                  "(induction over byte strings / value lists) + differential correspondence of the real writeWhere text, its literal "
                  "scan and its row selection + direct structure/semantics oracle on the real query text"),
    "text": ("Kernel-checked for ALL byte strings: the ClickHouse literal lexer applied to '<escape s>' returns exactly s and stops at the "
             "closing quote (no user byte can end a literal); for every builder configuration and every filter the where text scans into "
             "exactly the user strings (in order, one literal each) and a skeleton that does not depend on the string contents, contains "
             "no quote and has balanced parentheses; the condition tree written for a tag selects a row iff the row matches some requested "
             "value (positive filter) / no requested value (negative filter), with the 0!=0 / 0=0 conventions, the empty value and raw tags. "
             "The model is tied to the code by comparing the real writeWhere output byte for byte, and the real text is re-lexed, parsed "
             "and evaluated independently by the Go oracle."),
    "note": ("Trusted: Lean kernel; the ClickHouse lexer model (from memory of its source, not executable here); SQL row semantics of the "
             "operators used; model<->code correspondence on generated cases (quick 3000, thorough 60000). Regular expressions are opaque "
             "(passed through as literals). Select/group-by/order-by parts of the queries are not modelled; they are covered by the oracle "
             "(complete body re-lexed, token stream compared with a benign twin). LOD.Location (time-zone name written unescaped for the "
             "1-month step) is not a filter value and is out of scope."),
    "design_ref": "DESIGN.md §6 C26",
}
