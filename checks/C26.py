"""C26 — user-supplied filter values cannot change the structure of storage queries (DESIGN §6 C26)."""
HARNESS = "./cmd/verif-c26"
DRIVER = "drv_c26"


def run(c):
    c.rule = ("one case = one queryBuilder (mode series/tagValues/tagValueIDs, metric nil or with 0-48 tags incl. raw/raw64/prekey, "
              "0-4 positive and 0-4 negative tag filters with 0-5 values each: mapped+string, string-only, mapped-only, the empty value, "
              "zero value, id -2/0/int64 extremes, optional regular expression) built from hostile strings (quotes, backslashes, NUL/"
              "control bytes, invalid UTF-8, SQL fragments, trailing backslash); plus the rest of the query: 0-7 digest kinds (1..9, duplicates, avg/stddev/sum/count overlaps, gaps), "
              "min/max host, group-by incl. shard in caller order, sort none/asc/desc, all 11 LOD steps + the 1-month step with a "
              "time-zone name + an unknown step, utc offsets, 3 SETTINGS texts, sharded or not, tag-values tag with own raw/raw64 flags "
              "and index incl. string-top; the REAL writeWhere text AND the REAL complete body of buildSeriesQuery / buildTagValuesQuery / "
              "buildTagValueIDsQuery (byte for byte), their literal scans and the selection of 8 rows are compared with the Lean model; about half of the filters are given as the USER'S FILTER STRINGS (empty, ' 0', raw codes incl. 64-bit and invalid ones, mapped/unmapped hostile "
              "strings, value comments and bucket labels of raw tags) and converted by the REAL requestHandler.GetTagFilter over an in-memory "
              "string->id mapping, its result compared with the model and fed into the real builders; every where integer expression is "
              "evaluated (ClickHouse typing) on edge Int32 halves incl. low halves with bit 31 set and compared with the model's tree; "
              "LENGTHS are adversarial per case (76% short; mixed; all-long: every non-empty string > 128 bytes; boundary 127/128/129): "
              "values, regexes and user filter strings of both polarities get lengths 127/128/129 around format.MaxStringLen, log-uniform "
              "130..8K and >= 512; non-trivial = some filter string is longer than 129 bytes, or "
              "contains a quote or backslash, or a regex / empty value / raw tag / raw64 tag is present; distinct by op-sequence hash")
    c.assumptions += [
        "TRUSTED, NOT CHECKED AGAINST ClickHouse: the single-quoted literal lexer/decoder `lexLit`/`scan` is written from ClickHouse's "
        "source as remembered (Lexer.cpp quotedString: a literal ends at an unescaped quote not followed by a quote, backslash skips "
        "one character; ReadHelpers.cpp parseComplexEscapeSequence: '' -> ', \\xHH, \\N -> nothing, \\a\\b\\e\\f\\n\\r\\t\\v\\0, "
        "unknown escapes keep the backslash). ClickHouse is not available here; the theorems need of it only: backslash-backslash "
        "-> backslash, backslash-quote -> quote, every other byte except quote/backslash stands for itself",
        "TRUSTED ClickHouse integer typing used by the evaluators (Go oracle and Lean IExpr.eval): tagN/pre_tag/_prekey are Int32 columns, "
        "_tagN aliases Int64; toUInt32(x) keeps the low 32 bits as UInt32; toInt64(x) preserves the value; bitShiftLeft(a,n) has the type "
        "of a and shifts inside its width; bitOr(a,b) converts both operands value-preservingly to the common type (64 bits if either "
        "is 64-bit or if an Int32 meets a UInt32; signed if either is signed), so a negative Int32 operand is sign-extended; = and IN "
        "compare integers by value",
        "GetTagFilter: builtin-kind tags (metric/group/namespace pseudo-tags) are not exercised; ValueComments keys are distinct and "
        "non-empty; strconv.ParseFloat+LexEncode (bucket labels) is an input of the model; rows never hold the reserved id -2 "
        "(TagValueIDDoesNotExist), which GetTagFilter gives to a string without mapping (hypothesis r.n != -2, shown necessary)",
        "configuration, not filter values: the LOD time-zone name is written between quotes WITHOUT escaping (1-month step); the "
        "whole-query theorems assume it has no quote/backslash and that the SETTINGS text has no quote/parenthesis (hypothesis QOK)",
        "digest kinds are DigestWhat values 1..9 (a number >= DigestLast would index has[DigestLast]bool out of range before the "
        "switch default); LOD version 6; group-by entries are tag indices 0..47 or the shard index",
        "match() is an uninterpreted predicate of (pattern, subject): the property needs only that the original pattern reaches it",
        "row semantics of IN / NOT IN / = / AND / OR / NOT on non-NULL Int and String columns as in standard SQL",
        "a row's integer value for a tag is the value of the integer expression the builder itself uses for that tag in the where-clause "
        "(column naming: tagN / pre_tag / _prekey / _tagN / raw64 bitOr expression is covered by text correspondence only)",
        "with a regular expression the caller only passes string values the expression matches (promql engine getTagValues loop); "
        "the semantic oracle and theorem carry this hypothesis",
    ]
    c.prove("SH.Lemmas.Sql", extra_files=["SH/Model/Sql.lean"])      # helper development (every theorem audited too)
    c.prove("SH.Props.C26", extra_files=["SH/Model/Sql.lean", "SH/Lemmas/Sql.lean"])
    drv = c.driver(DRIVER)
    binary = c.go_build(HARNESS)
    if binary and drv:
        rc, out = c.go_run(binary, [f"-n={c.n(3000, 60000)}"])
        c.harness_ok(rc, out, "verif-c26")
        c.correspond(out, drv)

    def search():
        if not binary:
            return
        for k in range(1, 6):
            rc, out = c.go_run(binary, [f"-n={c.n(6000, 30000)}", f"-seed={c.seed + 1000 * k}"])
            c.collect(out, label="")
            if c.oracle:
                return
    return search


META = {
    "level": "proof",
    "technique": ("Lean 4 theorems over an executable model of the complete query writers (select list, from, where, group by, having, "
                  "order by, limit, settings) and of ClickHouse's quoted-literal lexer (induction over byte strings / value lists / the "
                  "digest loop) + byte-exact differential correspondence of the real where text AND the real complete query text, its "
                  "literal scan and its row selection + direct structure/semantics oracle on the real query text"),
    "text": ("Kernel-checked for ALL byte strings: the ClickHouse literal lexer applied to '<escape s>' returns exactly s and stops at the "
             "closing quote (no user byte can end a literal). For every builder configuration and all filters the WHERE text and the "
             "COMPLETE text of series / tag-values / tag-value-IDs queries (query_wellformed) scan into exactly the user strings (in order, "
             "one literal each, decoded back to the original) and a skeleton that contains no quote, has balanced parentheses and does "
             "not depend on the string contents (where_skeleton_independent, query_skeleton_independent), with NO length hypothesis "
             "(wellformed_any_length: lengthening every value/regex by any number of bytes keeps all of it and the same skeleton; a decide "
             "witness shows the skip-values-longer-than-128 variant yields an unterminated literal). Every regular expression is "
             "written once, escaped, in positive and negative clauses of non-raw tags, decodes back to itself whatever follows "
             "(regex_literal_decodes, regex_decodes_in_tag) and is not written for raw tags. The condition tree written for a tag selects a "
             "row iff the row matches some requested value (positive) / none (negative), with the 0!=0 / 0=0 conventions, the empty value "
             "and raw tags (where_selects_exactly). End to end from the user's filter strings (filter_strings_select_exactly): whenever "
             "GetTagFilter accepts the strings, the written condition selects a row iff its tag has the meaning of one of them — \"\" and the "
             "raw code \" 0\" are the EMPTY value (integer 0 and no string value), so unmapped-string rows are not selected by it. For 64-bit "
             "raw tags the emitted bitOr/bitShiftLeft/toUInt32 expression evaluates to exactly the value its two Int32 columns encode "
             "(raw64_reassembles, raw64_hits_value), for all halves. The model is tied to the code by comparing the real writeWhere output and the real "
             "complete query body byte for byte; the real text is also re-lexed, parsed and evaluated independently by the Go oracle."),
    "note": ("Trusted and explicit: (1) the ClickHouse literal-lexer model (lexLit/scan) is written from memory of ClickHouse's Lexer.cpp / "
             "ReadHelpers.cpp and is NOT validated against a ClickHouse binary (none available offline); only three facts of it are used by "
             "the theorems (\\\\ -> \\, \\' -> ', other bytes literal; '' is a doubled quote). (2) SQL row semantics of IN/NOT IN/=/AND/OR/NOT "
             "on non-NULL columns; match() is an uninterpreted predicate. (3) model<->code correspondence on generated cases (quick 3000, "
             "thorough 60000). Hypotheses: RegexCovers (caller passes only string values the regex matches; shown necessary by "
             "regex_invariant_needed); QOK (configuration: time-zone name without quote/backslash since the code writes it unescaped, SETTINGS "
             "without quote/parenthesis; shown necessary by a decide witness). Not proved: a full SQL grammar for the skeleton (only quote-"
             "freeness, literal placement and parenthesis balance; the Go oracle parses the real where text with a grammar), result-column "
             "binding (q.res). Observation outside the property: MetricMetaValue.RestoreCachedInfo tests tag.Index before assigning it, so an "
             "int64 kind on tag 47 survives the first validation and a filter on that tag panics raw64Expr (format.TagID(48)); the harness "
             "stays inside validated metadata. Third round: GetTagFilter (promql.go) and the integer-expression evaluator are now inside the "
             "model, the correspondence and the oracle (signatures raw64-expr-wrong-value, raw64-select-wrong-value; where-selects-wrong-rows "
             "now judges string-derived filters by the meaning of the user's strings). Observation: on a RAW tag a plain string that is no "
             "value comment becomes NewTagValue(s,-2) and is rendered `tagN IN (-2)`, which would select a raw value -2; excluded by the "
             "r.n != -2 hypothesis."),
    "design_ref": "DESIGN.md §6 C26",
}
