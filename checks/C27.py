"""C27 — PromQL aggregation operators, over-time functions and reduction rules (DESIGN §6 C27)."""
HARNESS = "./cmd/verif-c27"
DRIVER = "drv_c27"


def run(c):
    c.rule = ("eval cases (5 of 8): a generated storage (1-4 series with tags a,b,c; one-second events, multiples of 5040) and a query whose time "
              "scale the real data_model.GetTimescale builds: fine (step 0/1/5/10/15, dense events), coarse (steps 2/10/20/30/45/60/120/300/600/7200 "
              "incl. steps that are not LOD levels, served on a finer grid; at most one event per series and grid point) or two LODs (the query "
              "crosses the minute-table/second-table boundary); 1-3 expressions = trees of unary operators (sum/min/max/avg/count/group/stddev/"
              "stdvar/quantile with by/without (labels also repeated or given by another name of the same tag: canonical id <i>, legacy alias key<i>, also alone), topk/bottomk, *_over_time incl. quantile_over_time with matrix or subquery ranges of <1, 1, 2, 3 "
              "grid points, parentheses, `+ 0` rule breakers, optional __what__) and vector-vector binary operators (+ - * / == > < >= <= with "
              "default, on(..) and ignoring(..) one-to-one matching; half of them agg by (L) (x op x | agg without () (x) | ..) op agg by (L) (..)), "
              "each run through the real Engine; cases that leave float64's exact domain, depend on a weight tie or on a scalar-left comparison tie "
              "are regenerated. extended-real cases (1 of 8): one aggregation or over-time operator over the selector's series turned into ±Inf / MaxFloat64 / ±0 points by an engine-side scalar operation ((m + 0) * 2^1008 overflowing for the larger values, / 0, * 0 + MaxFloat64, * -0), judged by the ERat layer of the model and by big.Rat definitions over -inf | finite | +inf (sig def-*-inf). numeric cases (2 of 8, oracle only): magnitudes 1e6..1e12 with spread down to magnitude/1e9 and mixed magnitudes. "
              "window cases (1 of 8): the bare cursor on non-uniform grids. non-trivial = rewritten by a reduction rule, or result with missing "
              "points, or non-empty result of a binary operator, or numeric case, or cursor moved > 2 times")
    c.assumptions += ["storage contract: QuerySeries merges the rows of one (group, bucket of the point's LOD) with tsValues.merge and selects with "
                      "tsValues.value (both real code, called by the stub); one event per (series, second)",
                      "one time shift, no filters, no host tags; binary operators one-to-one only, without bool / != / set operators / group_left",
                      "exact arithmetic in the model: inputs are chosen so that every float64 operation is exact (re-checked with big.Rat per case); "
                      "rounding behaviour is judged by the numeric oracle stream only (relative 1e-6 + floor; the current code's worst observed error "
                      "is < 1e-4 of that tolerance)"]
    c.prove("SH.Props.C27", extra_files=["SH/Model/PromEval.lean", "SH/Lemmas/PromWindow.lean", "SH/Lemmas/PromWindowG.lean", "SH/Lemmas/PromReduce.lean"])
    drv = c.driver(DRIVER)
    binary = c.go_build(HARNESS)
    if binary and drv:
        rc, out = c.go_run(binary, [f"-n={c.n(1000, 30000)}"])
        c.harness_ok(rc, out, "verif-c27")
        c.correspond(out, drv)

    def search():
        if not binary:
            return
        for k in range(1, 6):
            rc, out = c.go_run(binary, [f"-n={c.n(2000, 6000)}", f"-seed={c.seed + 1000 * k}"])
            c.collect(out)
            if c.oracle:
                return
    return search


META = {
    "level": "proof",
    "technique": "Lean 4 theorems over an executable model of the PromQL evaluator (aggregators as folds over a column, the window cursor as a state "
                 "machine, the reduction rules, the storage contract) + differential correspondence of whole Engine runs (parser -> reduction "
                 "rules -> storage query -> functions.go -> exec) with the compiled model on generated storages and expressions",
    "text": ("Kernel-checked, for all inputs: (1) sum/min/max/avg/count/group/stdvar (stddev on perfect squares) equal their definitions over the "
             "present points, every aggregator depends on a column only through its present points; quantile for every q in [0,1] is the linear "
             "interpolation between the closest ranks of the sorted present points (quantile_def, with bounds) and a function of their multiset "
             "(aggQuantile_perm); topk/bottomk keep min(k,n) series of a group none of which is lighter/heavier than a dropped one (topk_def). "
             "(2) over_time_is_definition: on every uniform grid, for every series, range and *_over_time function (incl. quantile_over_time) the "
             "cursor-driven evaluation (newWindow/moveOneLeft/setValueAtRight/fillPrefixWith, proved through a loop invariant) returns the function "
             "of exactly the k points of the range ending at the point (timestamps in (t-w, t]; the nil value when none is present; the first k "
             "points missing). (3) reduction soundness for whole expressions: under exactly the rules' side conditions (Range <= step, = step for "
             "stddev/stdvar, compatible whats) the four rule shapes evaluate to ONE storage query (rule0..3_expression), and every point of that "
             "query is the engine aggregate of the per-series storage values (tsValues.merge is associative/commutative: bucket_group_eq_pooled, "
             "pushed_query_is_aggregate, reduction_sound_sum) for what in sum/sumsec/count/countsec/min/max, avg as sum/count; stdvar/stddev are "
             "excluded with a witness (stdvar_pushdown_is_not_population: pushed-down = 2x the population variance for two points). "
             "(4) binary operators: a vector matched one-to-one against itself loses no series, every result stems from a left/right pair with "
             "equal matching label sets; grouping (engine-side and pushed-down) depends only on the set of resolved tag indices (groupKey_dedup, rule0_dedup). The model is tied to the code by diffing every result point of generated expressions run through the real "
             "engine on time scales built by the real GetTimescale; direct oracles: def-* (big.Rat definitions), def-*-numeric (outside the exact "
             "domain, relative tolerance), reduce-* (pushed-down vs engine-side evaluation)."),
    "note": ("Round 7: two of five fine/coarse scenarios with at least two series contain a series whose only points lie in the hidden points left of the view (topk/bottomk must neither rank nor return it). Round 5: infinite points are PRESENT points (only NaN is missing): ERat layer of the model, max_is_definition/min_is_definition, stream xeval; DEFECT reported with fix fixes/C27-infinite-points.diff (min_over_time/max_over_time start from +-MaxFloat64, quantile and quantile_over_time multiply an infinite neighbour by a zero weight): the check is red on a tree without it (infinite_points_old_violates). Round 6: quantile / quantile_over_time with q outside [0,1] are generated in the extended-real stream: -Inf/+Inf where the group/window has a point, missing elsewhere (quantile_out_of_range); DEFECT reported with fix fixes/C27-quantile-out-of-range.diff (the engine wrote +-Inf into every timestamp, also where every input point is missing): the check is red on a tree without it. Round 4: avg is inside the two-grid statement (overtime_pushdown_two_grids_avg); rules #2 and #3 have two-grid forms "
             "(rule2_two_grids, rule3_two_grids via two_grid_core: the pushed-down point of a group and bucket equals the engine's evaluation on "
             "the one-second grid for sum/min/max compositions; rule #3 without any restriction on events per second); subqueries: "
             "subquery_is_window_of_results (f over the window of the operand's RESULTS with the subquery's own range), the C27-r3-2 mutation is "
             "the variant evalChainEarlyRange with the witness early_range_violates. Earlier rounds: over_time_is_definition(_general), "
             "pushed_query_is_aggregate, rule0..3_expression, quantile_def, topk_def, groupKey_dedup, binApply_*. "
             "Last round: for the not-strict over-time functions (avg/min/max/last) the window edge is derived from the grid and the range on every non-decreasing grid (Lgrid, over_time_is_definition_any_grid), two-LOD grids need no per-grid check. Still partial: for the strict functions (sum/count/stdvar/stddev/quantile) on non-uniform grids the edge L remains a hypothesis of over_time_is_definition_general (uniform grids: proved); "
             "strict functions with a range narrower than a coarse bucket are excluded by hypothesis; count-of-count and avg-of-avg compositions "
             "are not pooled values and are outside the exact push-down statements; stddev on non-squares, group order, the weight function of topk "
             "are correspondence-only. Trusted: Lean kernel; the Handler stub (storage contract; it calls the real tsValues.merge/value); exact "
             "arithmetic (float rounding only through the numeric oracle stream); one time shift, no filters; binary operators one-to-one without "
             "bool/!=/set operators; histogram_quantile, predict_linear out of scope. Known finding: stdvar/stddev_over_time push-down (sample vs "
             "population variance). Fixed in /repo: reduction what (3ba3df3b), missing points (600fb7e6), legacy alias grouping (78db24c9; "
             "repo_alias_violates / aggregateRepoAlias remain as the pre-fix witness only). Observation, NOT a C27 violation (binary comparisons are "
             "not among the property's operators) and not alarmed (cases regenerated): with the label-less scalar operand on the LEFT of an ordering "
             "comparison evalBinary's swapped operator table (GTR->LTE, GTE->LSS, LSS->GTE, LTE->GTR) differs from the mirrored operator on ties."),
    "design_ref": "DESIGN.md §6 C27",
}
