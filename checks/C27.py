"""C27 — PromQL aggregation operators, over-time functions and reduction rules (DESIGN §6 C27)."""
HARNESS = "./cmd/verif-c27"
DRIVER = "drv_c27"


def run(c):
    c.rule = ("4 of 5 cases: a generated storage (1-4 series with tags a,b,c; one-second events, multiples of 5040, random density and a gap), "
              "a time scale (step 0/1/5/10/15) and 1-3 expressions = chains of 1-3 operators (sum/min/max/avg/count/group/stddev/stdvar/"
              "quantile with by/without, topk/bottomk, *_over_time incl. quantile_over_time with matrix or subquery ranges, parentheses, "
              "`+ 0` rule breakers, optional __what__) over the selector, each run through the real Engine; cases that leave float64's exact "
              "domain or depend on a weight tie are regenerated. 1 of 5 cases: the bare window cursor on non-uniform time grids. "
              "non-trivial = the expression was rewritten by a reduction rule, or its result has missing points, or the cursor moved > 2 times")
    c.assumptions += ["storage contract: QuerySeries merges the rows of one (group, bucket) with tsValues.merge and selects with tsValues.value "
                      "(both real code, called by the stub); one event per (series, second)",
                      "single LOD time scales, one time shift, no filters, no host tags",
                      "exact arithmetic: inputs are chosen so that every float64 operation is exact (re-checked with big.Rat per case)"]
    c.prove("SH.Props.C27", extra_files=["SH/Model/PromEval.lean"])
    drv = c.driver(DRIVER)
    binary = c.go_build(HARNESS)
    if binary and drv:
        rc, out = c.go_run(binary, [f"-n={c.n(600, 12000)}"])
        c.harness_ok(rc, out, "verif-c27")
        c.correspond(out, drv)

    def search():
        if not binary:
            return
        for k in range(1, 6):
            rc, out = c.go_run(binary, [f"-n={c.n(1500, 6000)}", f"-seed={c.seed + 1000 * k}"])
            c.collect(out)
            if c.oracle:
                return
    return search


META = {
    "level": "proof",
    "technique": "Lean 4 theorems over an executable model of the evaluator (aggregators as folds, the window cursor as a state machine, "
                 "reduction rules, storage contract) + differential correspondence with the real promql.Engine on generated storages and expressions",
    "text": ("Kernel-checked theorems: every aggregator equals its definition over the present points (missing points excluded); "
             "pushing sum/count/min/max/avg down into a pre-aggregating storage equals aggregating the per-series storage answers; "
             "the window cursor selects exactly the points of the range on a uniform grid. The model is tied to the code by running "
             "generated expressions through the real parser/evaluator/functions with an in-memory Handler and diffing every result point."),
    "note": ("Trusted: Lean kernel; the Handler stub (storage contract, uses the real tsValues.merge/value); exact arithmetic only "
             "(no float rounding); sqrt on perfect squares only; histogram_quantile, predict_linear, binary operators between vectors, "
             "time shifts and multi-LOD time scales are out of scope (partial)."),
    "design_ref": "DESIGN.md §6 C27",
}
