"""C27 — PromQL aggregation operators, over-time functions and reduction rules (DESIGN §6 C27)."""
HARNESS = "./cmd/verif-c27"
DRIVER = "drv_c27"


def run(c):
    c.rule = ("4 of 5 cases: a generated storage (1-4 series with tags a,b,c; one-second events, multiples of 5040, random density and a gap), "
              "a time scale (step 0/1/5/10/15) and 1-3 expressions = chains of 1-3 operators (sum/min/max/avg/count/group/stddev/stdvar/"
              "quantile with by/without, topk/bottomk, *_over_time incl. quantile_over_time with matrix or subquery ranges, parentheses, "
              "`+ 0` rule breakers, optional __what__) over the selector, each run through the real Engine; cases that leave float64's exact "
              "domain or depend on a weight tie are regenerated. 1 of 5 cases: the bare window cursor on non-uniform time grids. "
              "non-trivial = the expression was rewritten by a reduction rule, or its result has missing points, or the cursor moved > 2 times")
    c.assumptions += ["storage contract: QuerySeries merges the rows of one (group, bucket) with tsValues.merge and selects with tsValues.value "
                      "(both real code, called by the stub); one event per (series, second)",
                      "single LOD time scales, one time shift, no filters, no host tags",
                      "exact arithmetic: inputs are chosen so that every float64 operation is exact (re-checked with big.Rat per case)"]
    c.prove("SH.Props.C27", extra_files=["SH/Model/PromEval.lean"])
    drv = c.driver(DRIVER)
    binary = c.go_build(HARNESS)
    if binary and drv:
        rc, out = c.go_run(binary, [f"-n={c.n(400, 20000)}"])
        c.harness_ok(rc, out, "verif-c27")
        c.correspond(out, drv)

    def search():
        if not binary:
            return
        for k in range(1, 6):
            rc, out = c.go_run(binary, [f"-n={c.n(1000, 3000)}", f"-seed={c.seed + 1000 * k}"])
            c.collect(out)
            if c.oracle:
                return
    return search


META = {
    "level": "proof",
    "technique": "Lean 4 theorems over an executable model of the PromQL evaluator (aggregators as folds over a column, the window cursor as a state "
                 "machine, the reduction rules, the storage contract) + differential correspondence of whole Engine runs (parser -> reduction "
                 "rules -> storage query -> functions.go -> exec) with the compiled model on generated storages and expressions",
    "text": ("Kernel-checked, for all inputs: sum/min/max/avg/count/group/stdvar (and stddev on perfect squares, quantile at q=0) equal their "
             "definitions over the present points; every aggregator and quantile depends on a column only through its present points; "
             "what a pre-aggregating storage returns for the pooled rows of a group equals the engine's sum/count/min/max (and sum/count for avg) "
             "over the per-series storage values (algebraic core of reduction soundness); the over-time rule fires iff Range <= step (= step for "
             "stddev/stdvar); every cursor move keeps l <= r and moves r by one. The model is tied to the code by diffing every result point of "
             "generated expressions run through the real engine; two direct oracles recompute definitions with big.Rat (def-*) and compare a "
             "pushed-down expression with its engine-side evaluation over one-second data (reduce-*)."),
    "note": ("Partial: reduction soundness is proved at the row level (merge/value vs aggregate), its lift to whole expressions and the window "
             "definition on uniform grids (over_time_is_definition) are covered by correspondence/oracles only; topk/bottomk, quantile for q>0 "
             "and grouping keys likewise. Trusted: Lean kernel; the Handler stub (storage contract; it calls the real tsValues.merge/value); "
             "exact arithmetic only (no float rounding, sqrt on perfect squares); single-LOD time scales, one time shift, no filters; "
             "histogram_quantile, predict_linear, vector-vector binary operators out of scope. On the pinned tree the check reports the dropped "
             "reduction `what` and group/stdvar/stddev/quantile on all-missing columns (fixes/C27-*.diff); stdvar/stddev_over_time push-down "
             "(sample vs population variance) is a known finding."),
    "design_ref": "DESIGN.md §6 C27",
}
