"""C27 — PromQL aggregation operators, over-time functions and reduction rules (DESIGN §6 C27)."""
HARNESS = "./cmd/verif-c27"
DRIVER = "drv_c27"


def run(c):
    c.rule = ("eval cases (5 of 8): a generated storage (1-4 series with tags a,b,c; one-second events, multiples of 5040) and a query whose time "
              "scale the real data_model.GetTimescale builds: fine (step 0/1/5/10/15, dense events), coarse (steps 2/10/20/30/45/60/120/300/600/7200 "
              "incl. steps that are not LOD levels, served on a finer grid; at most one event per series and grid point) or two LODs (the query "
              "crosses the minute-table/second-table boundary); 1-3 expressions = trees of unary operators (sum/min/max/avg/count/group/stddev/"
              "stdvar/quantile with by/without, topk/bottomk, *_over_time incl. quantile_over_time with matrix or subquery ranges of <1, 1, 2, 3 "
              "grid points, parentheses, `+ 0` rule breakers, optional __what__) and vector-vector binary operators (+ - * / == > < >= <= with "
              "default, on(..) and ignoring(..) one-to-one matching; half of them agg by (L) (x op x | agg without () (x) | ..) op agg by (L) (..)), "
              "each run through the real Engine; cases that leave float64's exact domain, depend on a weight tie or on a scalar-left comparison tie "
              "are regenerated. numeric cases (2 of 8, oracle only): magnitudes 1e6..1e12 with spread down to magnitude/1e9 and mixed magnitudes. "
              "window cases (1 of 8): the bare cursor on non-uniform grids. non-trivial = rewritten by a reduction rule, or result with missing "
              "points, or non-empty result of a binary operator, or numeric case, or cursor moved > 2 times")
    c.assumptions += ["storage contract: QuerySeries merges the rows of one (group, bucket of the point's LOD) with tsValues.merge and selects with "
                      "tsValues.value (both real code, called by the stub); one event per (series, second)",
                      "one time shift, no filters, no host tags; binary operators one-to-one only, without bool / != / set operators / group_left",
                      "exact arithmetic in the model: inputs are chosen so that every float64 operation is exact (re-checked with big.Rat per case); "
                      "rounding behaviour is judged by the numeric oracle stream only (relative 1e-6 + floor; the current code's worst observed error "
                      "is < 1e-4 of that tolerance)"]
    c.prove("SH.Props.C27", extra_files=["SH/Model/PromEval.lean"])
    drv = c.driver(DRIVER)
    binary = c.go_build(HARNESS)
    if binary and drv:
        rc, out = c.go_run(binary, [f"-n={c.n(1000, 30000)}"])
        c.harness_ok(rc, out, "verif-c27")
        c.correspond(out, drv)

    def search():
        if not binary:
            return
        for k in range(1, 6):
            rc, out = c.go_run(binary, [f"-n={c.n(2000, 6000)}", f"-seed={c.seed + 1000 * k}"])
            c.collect(out)
            if c.oracle:
                return
    return search


META = {
    "level": "proof",
    "technique": "Lean 4 theorems over an executable model of the PromQL evaluator (aggregators as folds over a column, the window cursor as a state "
                 "machine, the reduction rules, the storage contract) + differential correspondence of whole Engine runs (parser -> reduction "
                 "rules -> storage query -> functions.go -> exec) with the compiled model on generated storages and expressions",
    "text": ("Kernel-checked, for all inputs: sum/min/max/avg/count/group/stdvar (and stddev on perfect squares, quantile at q=0) equal their "
             "definitions over the present points; every aggregator and quantile depends on a column only through its present points; "
             "what a pre-aggregating storage returns for the pooled rows of a group equals the engine's sum/count/min/max (and sum/count for avg) "
             "over the per-series storage values (algebraic core of reduction soundness); the over-time rule fires iff Range <= step (= step for "
             "stddev/stdvar); every cursor move keeps l <= r and moves r by one; a vector matched one-to-one against itself loses no series and every result of a binary operator stems from a left/right pair with equal matching label sets. The model is tied to the code by diffing every result point of "
             "generated expressions run through the real engine; two direct oracles recompute definitions with big.Rat (def-*) and compare a "
             "pushed-down expression with its engine-side evaluation over the underlying series (reduce-*), on time scales built by the real GetTimescale (grids finer than the step, two LODs); a numeric stream outside the exact domain compares with the exact definition within a relative tolerance (def-*-numeric)."),
    "note": ("Partial: reduction soundness is proved at the row level (merge/value vs aggregate), its lift to whole expressions and the window "
             "definition on uniform grids (over_time_is_definition) are covered by correspondence/oracles only; topk/bottomk, quantile for q>0 "
             "and grouping keys likewise. Trusted: Lean kernel; the Handler stub (storage contract; it calls the real tsValues.merge/value); "
             "exact arithmetic only (no float rounding, sqrt on perfect squares); single-LOD time scales, one time shift, no filters; "
             "histogram_quantile, predict_linear, vector-vector binary operators out of scope. On the pinned tree the check reports the dropped "
             "reduction `what` and group/stdvar/stddev/quantile on all-missing columns (fixes/C27-*.diff); stdvar/stddev_over_time push-down "
             "(sample vs population variance) is a known finding."),
    "design_ref": "DESIGN.md §6 C27",
}
