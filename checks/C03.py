"""C03 — inserted rows equal the merge of all contributions and read back intact (DESIGN §6 C03)."""
HARNESS = "./cmd/verif-c03"
DRIVER = "drv_c03"


def gen(c):
    """regenerate lean/SH/Gen/C03.lean: MaxTags, StringTopTagIndexV3, believe window, sketch limits, TL field-mask bits
    (found by calling the generated setters), as the compiler sees them in /repo"""
    b = c.go_build(HARNESS)
    if not b:
        return None
    rc, out = c.go_run(b, ["-mode=gen"])
    if rc != 0 or "namespace SH.Gen.C03" not in out:
        c.broken.append("verif-c03 -mode=gen failed:\n" + out[-1500:])
        c.oblige("regenerate SH/Gen/C03.lean from /repo", False, out, kind="tie")
        return None
    c.gen("C03", out)
    return b


def run(c):
    c.rule = ("body cases (58%): 1-3 real aggregatorBuckets, 1-10 TL rows over 1-4 keys (int/string tags, explicit timestamps around the "
              "believe window, trailing zero tags), 0-7 string tops, values in compact/full form with counter_eq_1, zero and negative "
              "counters, explicit/empty hosts (a quarter of the values with DIFFERING min/max/max-count hosts: unmapped string hosts, ids, present-but-empty), sketches, centroids, implicit centroids, StringTopCountInsert in {1,2,3,20}; merged by the "
              "real GetOrCreateMultiItem/MergeWithTLMultiItem, inserted by the real rowDataMarshalAppendPositions; every row of the body is "
              "re-encoded by the model and compared byte for byte, the number of rows and the absence of unrequested rows are compared too. "
              "codec cases: appendArgMinMaxTag -> ColArgMin/MaxStringFloat32 (single value, and two result blocks through one column "
              "object), 2-4 result blocks through one ColTDigest / ColUnique (Reset + DecodeColumn per block as ch-go does, the reader keeps "
              "every *TDigest / ChUnique copy it was handed as seriesQuery.valuesAt does, all kept rows compared after the last block), "
              "ChUnique.MarshallAppend -> ColUnique (0..2000 values quick, up to 140000 thorough), AppendCentroids -> ColTDigest, "
              "float64/float32 images. Non-trivial = a (key, top) row with >= 2 contributions / second block decoded into reused slots / "
              "multi-block column / sketch beyond the initial table / >= 2 centroids; distinct by op-sequence hash")
    c.assumptions += [
        "float64 is modelled exactly inside the exact domain only (integer values, counters/sums that are multiples of 1/4, |m| < 2^53); rounding outside it is not decided",
        "the random draw of AddCounterHost is modelled as the SET of hosts MaxCounterHostTag may hold; the row encoder receives the host the real item ended with and checks membership",
        "the three float32 values written after the hosts (SkewMinMaxHost/SkewMaxCounterHost, rng.Float64 products) are inputs of the model; they depend on Go's map iteration order, so the compared rows carry them zeroed and the oracle checks that the real reader returns the bits that were written",
        "hrissan/tdigest is trusted: ValueTDigest.Centroids() is an input of the row encoder (float64 bit patterns); the reader side is compared only when its digest kept every centroid",
        "the open-addressing table of ChUnique is the set of stored values (SH.Model.Unique); the table order of the written values is an input checked to be a permutation of the model's set",
        "insert budget does not bind (sample factor 1, checked on every item); fewer than AggregatorStringTopCapacity=1000 tops per key (no resample); metrics are positive ids without meta (no skip flags, no badges); a tag slot holds an int or a string, not both; tag 47 is the string top",
        "one_row_per_key is per aggregator bucket: a body built from several buckets repeats a (time, key) that two buckets hold (explicit row timestamp equal to another bucket's second); the generator keeps bucket seconds 1000 s apart",
        "FinishStringTop ties at the capacity boundary depend on Go's unstable sort, and several over-capacity items in one body draw from one rng in map order: such cases are generated and merged but their insert is not replayed (stats body.skip.tie, body.skip.order)",
    ]
    binary = gen(c)
    c.prove("SH.Props.C03", extra_files=["SH/Model/Insert.lean", "SH/Model/Unique.lean", "SH/Lemmas/UniqueTrie.lean"])
    drv = c.driver(DRIVER)
    if binary and drv:
        rc, out = c.go_run(binary, [f"-n={c.n(1200, 40000)}"], timeout=3000)
        c.harness_ok(rc, out, "verif-c03")
        c.correspond(out, drv, timeout=3000)
        # the column-reuse stream on its own (few cases of the mixed stream reach it)
        rc, out = c.go_run(binary, [f"-n={c.n(300, 6000)}", "-mode=argcol"], timeout=3000)
        c.harness_ok(rc, out, "verif-c03 -mode=argcol")
        c.correspond(out, drv, label="argcol", timeout=3000)
        # several result blocks through one ColTDigest / ColUnique, the reader keeps what earlier blocks handed out
        for mode in ("tdcol", "uniqcol"):
            rc, out = c.go_run(binary, [f"-n={c.n(250, 5000)}", f"-mode={mode}"], timeout=3000)
            c.harness_ok(rc, out, f"verif-c03 -mode={mode}")
            c.correspond(out, drv, label=mode, timeout=3000)

    def search():
        if not binary:
            return
        for k in range(1, 6):
            for mode, n in (("", c.n(4000, 20000)), ("argcol", 2000), ("tdcol", 2000), ("uniqcol", 2000), ("body", c.n(3000, 10000))):
                args = [f"-n={n}", f"-seed={c.seed + 1000 * k}"] + ([f"-mode={mode}"] if mode else [])
                rc, out = c.go_run(binary, args, timeout=3000)
                c.collect(out, label=mode)
            if c.oracle:
                return
    return search


META = {
    "level": "proof",
    "technique": ("Lean 4 theorems over an executable byte-level model of the aggregator's RowBinary encoder, of the chutil column readers and of the "
                  "per-key merge of TL rows; differential correspondence byte for byte with the real insert body; direct big.Rat oracle on the body "
                  "decoded by the real column readers"),
    "text": ("Kernel-checked for all inputs: decode(encode x) = x for the uniq state, the t-digest centroid list and the argMin/argMax(String, Float32) state "
             "(int and string hosts, empty state), also for a column read into reused slots, and for percentile/uniq result columns decoded block by block "
             "through one column object (rows kept from earlier blocks are never changed by later blocks); after merging any list of TL rows into a bucket every "
             "(time, metric, tags, top) key is written exactly once (key columns are injective) and its count/sum/sum-of-squares/min/max are the fold of the "
             "contributions to that key; the host written next to min (max) is the host a contribution holding that min (max) names for it, restored by ONE function "
             "for the three parallel max/min/max-count blocks of MergeWithTL2 (absent, present-but-empty, explicit), the max-count host is named by a counted contribution; a sketch fed fewer distinct hashes than the exact-mode limit through MergeRead/MarshallAppend/ReadFrom keeps skipDegree 0 "
             "and reports exactly the number of distinct hashes. The model is tied to the code by re-encoding every row of real insert bodies byte for byte."),
    "note": ("Trusted: Lean kernel; model<->code correspondence on generated cases (quick 2000, thorough 56000); float64 only inside the exact domain; "
             "hrissan/tdigest, rng draws and the sketch's table order are inputs of the model. Partial: one_row_per_key is per aggregator bucket (a body of several "
             "buckets may repeat a key, by design); sampling (budget binds), string-top resample and built-in metrics are not modelled; round 7: the per-metric skip_min_host / skip_max_host / skip_sum_square switches of user-metric meta are checked by a direct oracle (caseSkipFlags: real journal meta -> real multiValueMarshal, first use and cached path of metricIndexCache), not by the Lean row model, which has no such switches. "
             "Defect found: argMin/argMax column readers kept fields of the previous result block in reused slots (fixes/C03-argminmax-stale-slot.diff); "
             "the model and theorems are for the fixed reader, the old reader is the `.stale` variant with a `decide` counterexample."),
    "design_ref": "DESIGN.md §6 C03",
}
