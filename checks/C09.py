"""C09 — agent disk cache survives restarts and torn writes (DESIGN §6 C09)."""
HARNESS = "./cmd/verif-c09"
DRIVER = "drv_c09"


def gen(c, binary):
    rc, out = c.go_run(binary, ["-mode=gen"])
    ok = rc == 0 and "namespace SH.Gen.C09" in out
    c.oblige("regenerate lean/SH/Gen/C09.lean from the constants of disk_cache.go as compiled", ok, out, kind="tie")
    if ok:
        c.gen("C09", out)
    else:
        c.broken.append("verif-c09 -mode=gen failed:\n" + out[-1500:])


def run(c):
    c.rule = ("random histories of put/get/erase/readNext over 1-3 shards of a REAL DiskBucketStorage in /tmp/C09, with time-based "
              "file rotation (clock test made an input through a verif setter, incl. the just-below-interval boundary), clean "
              "restarts, crashes tearing the last put at a random/boundary offset, crashes tearing an erase after 0..4 bytes, and "
              "(15 % of the cases) byte flips / truncations; 25 % of the cases end with an enumeration of tear offsets of the final "
              "put (quick: boundaries + random, thorough and -mode=enum: every byte offset, exhaustive for that history); "
              "-mode=big: real 50 MB files around fileRotateSize and maxChunkSize. The first four -mode=big cases are scripted boundary probes: REAL bodies of "
              "maxChunkSize, max-1, max+1 bytes put, restarted and re-read, and sparse-file header probes of the tail reader at the same "
              "three sizes, each compared with the model's writer/reader size predicates. Fault ops: the body write of a put fails after k bytes (RLIMIT_FSIZE lowered around "
              "the call; the failed body contains the image of a stored second and the next put is shorter), and a waiting tail file vanishes "
              "between the start-up scan and the tail read (model: OpenFile-error branch). ALL GetBucket calls of a case go through ONE reused "
              "scratch pad (as the agent's sender does), seconds with empty bodies are mixed in, and the model threads the pad (getP).  After every op the real ids/bytes/TotalFileSize, "
              "ref counts, read/write heads and a checksum of every file are compared with the Lean model. "
              "non-trivial = a restart/crash happened after an erase or a rotation (or a torn erase / size-rotation boundary); "
              "distinct by op-sequence hash")
    c.assumptions += [
        "the file system keeps prefixes: a torn put leaves a prefix of header++body (the two WriteAt calls are not reordered), a torn erase a prefix of its 4 bytes",
        "file names (wall clock with nanoseconds) are strictly increasing, so name order = creation order",
        "I/O error branches other than 'the waiting tail file is gone at OpenFile' and 'the body WriteAt fails part way' (header WriteAt/Seek failures, create errors) and the flock on run.lock are not modelled",
        "crc32c is a parameter of the theorems (detection of corruption is reduced to crc distinguishing the byte strings)",
        "size-based rotation and the maxChunkSize limits are tied at predicate level (mode=big: observed behaviour on real 50 MB files / sparse files vs the model's `rotates`, `tooBigLen`, `badChunk`)",
    ]
    binary = c.go_build(HARNESS)
    if binary:
        gen(c, binary)
    lem = ["Abs", "Inv", "Read", "Read2", "Read3", "Loop", "Drain", "Get", "Erase", "Erase2", "Erase3", "Drop", "Rotate", "NewFile",
           "Append", "Run", "GetLive", "Sizes", "Torn", "TornErase"]
    c.prove("SH.Props.C09", extra_files=["SH/Model/DiskCache.lean"] + [f"SH/Lemmas/DiskCache{x}.lean" for x in lem])
    c.prove("SH.Lemmas.DiskCachePutFail")        # a failed body write leaves no file that can still be appended to
    c.prove("SH.Lemmas.DiskCacheLimits")         # writer/reader size limits agree; accounting when a waiting file vanishes
    c.prove("SH.Lemmas.DiskCachePad")            # GetBucket's result is independent of the reused scratch pad's previous contents
    c.prove("SH.Lemmas.DiskCacheBytes")          # first-round byte-level theorems, still audited one by one
    drv = c.driver(DRIVER)
    if binary and drv:
        rc, out = c.go_run(binary, [f"-n={c.n(200, 1500)}"])
        c.harness_ok(rc, out, "verif-c09")
        c.correspond(out, drv)
        rc, out = c.go_run(binary, [f"-n={c.n(8, 80)}", "-mode=enum", f"-seed={c.seed + 77}"])
        c.harness_ok(rc, out, "verif-c09 -mode=enum")
        c.correspond(out, drv, label="enum")
        rc, out = c.go_run(binary, [f"-n={c.n(8, 30)}", "-mode=big"])
        c.harness_ok(rc, out, "verif-c09 -mode=big")
        c.correspond(out, drv, label="big")
        if c.tier == "thorough":
            c.extra["exhaustive"] = "mode=enum: every byte offset of the final put of each enumerated history"

    def search():
        if not binary:
            return
        for k in range(1, 6):
            rc, out = c.go_run(binary, [f"-n={c.n(1500, 6000)}", f"-seed={c.seed + 1000 * k}"])
            c.collect(out, label="")
            if c.oracle:
                return
    return search


META = {
    "level": "proof",
    "technique": ("Lean 4 theorems over an executable model of disk_cache.go (byte-level record format and scan, state machine with ref "
                  "counts) + op-by-op white-box differential correspondence with the real DiskBucketStorage on real files + direct "
                  "op-log oracle, tear offsets enumerated"),
    "text": ("Kernel-checked for EVERY history (List Op of put/get/erase/readNext/restart, any number of files and rotations): the "
             "model state satisfies a refinement invariant (files = encoded record lists, known buckets <-> records with ids, ref "
             "counts, cursors, sizes) and its live sequence equals the history-level spec (put appends, erase removes); hence "
             "reread_after_restart (restart + drain returns exactly the put-and-not-erased seconds in write order with identical "
             "bytes, readFuel always suffices), torn_tail (last put torn at ANY byte loses only that put), torn_erase (fixed reader: the "
             "4-byte magic write of an erase torn after k=0..4 bytes: k<=2 everything re-read, k=3,4 everything but that second, "
             "never another second lost; the pre-fix loss is kept as a history-level decide witness), erased_never_returned, "
             "accepted_size_readable (every body size PutBucket accepts is accepted by the tail reader, all sizes; boundary maxChunkSize), "
             "acct_vanish/acct_skipMissing (size accounting when a waiting tail file vanishes before it is opened), "
             "failed_put_leaves_no_garbage (a failed body write leaves no file that can be appended to; writing file = its records), "
             "getP_eq_get (the bytes GetBucket returns through the caller's REUSED scratch pad do not depend on the pad's previous "
             "contents), size_accounting (total = sum of file sizes, knownSize/waitingSize/unsent), file_removed (a file stays only while a "
             "known second or a head refers to it). Byte-level theorems of round one unchanged. The model is tied to the code by "
             "replaying every generated history op by op on a real cache directory and on the compiled model and diffing ids, "
             "bytes, sizes, ref counts and a checksum of every file; the oracle recomputes puts - erases - torn from the op log."),
    "note": ("Every clause of the property statement is now a history-level theorem; nothing is labelled partial. crc32c is a parameter (< 2^32; detection reduced to the crc "
             "distinguishing byte strings). Assumed: prefix-preserving file system, increasing file names, no I/O errors; flock not "
             "modelled; size rotation tied at predicate level (real 50 MB files, mode=big). The model follows the tree under test "
             "through the regenerated fact Gen.C09.tornEraseAccepted (true since fix b1b680d2)."),
    "design_ref": "DESIGN.md §6 C09",
}
