"""C09 — agent disk cache survives restarts and torn writes (DESIGN §6 C09)."""
HARNESS = "./cmd/verif-c09"
DRIVER = "drv_c09"


def gen(c, binary):
    rc, out = c.go_run(binary, ["-mode=gen"])
    ok = rc == 0 and "namespace SH.Gen.C09" in out
    c.oblige("regenerate lean/SH/Gen/C09.lean from the constants of disk_cache.go as compiled", ok, out, kind="tie")
    if ok:
        c.gen("C09", out)
    else:
        c.broken.append("verif-c09 -mode=gen failed:\n" + out[-1500:])


def run(c):
    c.rule = ("random histories of put/get/erase/readNext over 1-3 shards of a REAL DiskBucketStorage in /tmp/C09, with time-based "
              "file rotation (clock test made an input through a verif setter, incl. the just-below-interval boundary), clean "
              "restarts, crashes tearing the last put at a random/boundary offset, crashes tearing an erase after 0..4 bytes, and "
              "(15 % of the cases) byte flips / truncations; 25 % of the cases end with an enumeration of tear offsets of the final "
              "put (quick: boundaries + random, thorough and -mode=enum: every byte offset, exhaustive for that history); "
              "-mode=big: real 50 MB files around fileRotateSize and maxChunkSize. After every op the real ids/bytes/TotalFileSize, "
              "ref counts, read/write heads and a checksum of every file are compared with the Lean model. "
              "non-trivial = a restart/crash happened after an erase or a rotation (or a torn erase / size-rotation boundary); "
              "distinct by op-sequence hash")
    c.assumptions += [
        "the file system keeps prefixes: a torn put leaves a prefix of header++body (the two WriteAt calls are not reordered), a torn erase a prefix of its 4 bytes",
        "file names (wall clock with nanoseconds) are strictly increasing, so name order = creation order",
        "I/O error branches (OpenFile/WriteAt/Seek failures) and the flock on run.lock are not modelled",
        "crc32c is a parameter of the theorems (detection of corruption is reduced to crc distinguishing the byte strings)",
        "size-based rotation is tied at predicate level only (mode=big: observed rotation on real 50 MB files vs the model's `rotates`)",
    ]
    binary = c.go_build(HARNESS)
    if binary:
        gen(c, binary)
    c.prove("SH.Props.C09", extra_files=["SH/Model/DiskCache.lean"])
    drv = c.driver(DRIVER)
    if binary and drv:
        rc, out = c.go_run(binary, [f"-n={c.n(200, 1500)}"])
        c.harness_ok(rc, out, "verif-c09")
        c.correspond(out, drv)
        rc, out = c.go_run(binary, [f"-n={c.n(8, 80)}", "-mode=enum", f"-seed={c.seed + 77}"])
        c.harness_ok(rc, out, "verif-c09 -mode=enum")
        c.correspond(out, drv, label="enum")
        rc, out = c.go_run(binary, [f"-n={c.n(6, 30)}", "-mode=big"])
        c.harness_ok(rc, out, "verif-c09 -mode=big")
        c.correspond(out, drv, label="big")
        if c.tier == "thorough":
            c.extra["exhaustive"] = "mode=enum: every byte offset of the final put of each enumerated history"

    def search():
        if not binary:
            return
        for k in range(1, 6):
            rc, out = c.go_run(binary, [f"-n={c.n(1500, 6000)}", f"-seed={c.seed + 1000 * k}"])
            c.collect(out, label="")
            if c.oracle:
                return
    return search


META = {
    "level": "proof",
    "technique": ("Lean 4 theorems over an executable model of disk_cache.go (byte-level record format and scan, state machine with ref "
                  "counts) + op-by-op white-box differential correspondence with the real DiskBucketStorage on real files + direct "
                  "op-log oracle, tear offsets enumerated"),
    "text": ("Kernel-checked, for every record list / byte prefix / tear offset: the header written by writeSecond is read back field "
             "for field; one iteration of the ReadNextTailSecond loop at a record boundary skips an erased record and hands out a good "
             "one with exactly the written time/size/crc; a file of records is scanned to exactly its non-erased records in write "
             "order; cutting the last record at ANY byte loses that record only; eraseBucket changes exactly one record; GetBucket "
             "returns bytes only under the time/length/crc checks; the stateful model loop hands out the first element of that scan. "
             "The model (incl. ref counts, cursors, total/unsent, file removal, rotation) is tied to the code by replaying every "
             "generated history op by op on a real cache directory and on the compiled model and diffing ids, bytes, sizes, ref counts "
             "and a checksum of every file; the oracle recomputes puts - erases - torn from the op log and compares with what the "
             "reopened real cache returns, TotalFileSize with the directory, and the set of files with the live seconds."),
    "note": ("PARTIAL: the history-level theorems (reread_after_restart / torn_tail over op lists with several files, size_accounting, "
             "file_removed) are not proved in Lean - the per-file and per-op facts are; the history level rests on the correspondence "
             "and the oracle. crc32c is a parameter (detection reduced to the crc distinguishing byte strings). Assumed: prefix-"
             "preserving file system, increasing file names, no I/O errors; flock not modelled; size rotation tied at predicate level "
             "(real 50 MB files, mode=big). Finding: an erase torn after 3 bytes makes the reader drop the later seconds of the file "
             "(sig torn-erase-drops-later-seconds, theorem torn_erase3_loses_later_second, fix proposed in fixes/C09-torn-erase.diff; "
             "the model follows the tree under test through the regenerated fact Gen.C09.tornEraseAccepted)."),
    "design_ref": "DESIGN.md §6 C09",
}
