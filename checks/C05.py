"""C05 — sampling keeps the expected value of every row unchanged (DESIGN §6 C05). Shares model, harness and driver with C06."""
HARNESS = "./cmd/verif-c05"
DRIVER = "drv_c05"
REPLAY_ARGS = ["-mode=c05"]


def run(c):
    c.rule = ("random buckets over 1-3 namespaces x 1-3 groups x 1-4 metrics x 1-20 rows (sizes 1..400 or uniform, whale weights with many "
              "ties, metric/group/namespace weights 1..1000 incl. unknown/zero, fair keys of length 0-3 with invalid indices, fixed per-metric "
              "budgets around the metric size, NoSampleAgent, rows with size<1, stale/missing MetricMeta), all 2^7 option combinations, "
              "budgets around sum(size)*{0.1,0.3,0.5,0.9,1,1.5} and sum-1; mode mix rand 80% (real selectRandom/roundSampleFactor), "
              "det 10%, quota 10%. Every 8th case is a SEQUENCE of 2-4 sampler runs that hand their SamplerBuffers on "
              "(as Aggregator.rowDataMarshalAppendPositions does between inserts), each with its own bucket; a decision about a row of an earlier "
              "run is the oracle violation row-decided-in-later-run. Every 8th case runs the REAL (*agent.Shard).sampleBucket on a bucket of ordinary, NoSampleAgent and "
              "ingestion-status rows (counts are powers of two so the factor of every sent row is exact, half of the rows hold exactly one event; cases with a size/weight "
              "tie between metrics are skipped) against SH.Sampler.agentBucket; every 16th case compares 20 random keys/rows with the models of "
              "Key.TLSizeEstimate, MultiItem.TLSizeEstimate, RowBinarySizeEstimate. Non-trivial = run in which at least one row was kept "
              "unconditionally and at least one row was sampled (handed to the selector or discarded) / agent case with bypassed and sampled "
              "rows; distinct by op-sequence hash")
    c.assumptions += [
        "PRNG: the draws consumed by the real selectRandom/roundSampleFactor are observed (generator state cloned around the calls) and replayed; theorems quantify over every draw stream",
        "ties of Go's unstable sort.Slice are resolved in the model by the observed processing order (Item.rank); theorems hold for every rank assignment",
        "exact domain: sizes/weights/budgets whose products stay below 2^53, sample factors compared as the IEEE bits of float64(num)/float64(den); cases with a draw within 1e-9 of a decision boundary are skipped (counted in input_distribution.skipped.ambiguous)",
        "int64 overflow of sumSize*weight is not modelled (Int); MultiValueToTL/multiValueMarshal scaling count, sum and sum of squares linearly by SF is assumed, not modelled (C02 covers the transfer)",
        "agent cases: per accounted metric the harness compares how many rows were sent with factor 1 / with the metric's factor (bits) / dropped, not which rows (the order of equal keys after Go's unstable sort is unobservable through sampleBucket); draws are read from a clone of the generator handed to sampleBucket",
        "the aggregator's KeepBuiltin path (statistics only) is not executed by the harness",
    ]
    c.prove("SH.Props.C05", extra_files=["SH/Model/Sampler.lean", "SH/Model/SamplerIO.lean", "SH/Lemmas/Sampler.lean", "SH/Lemmas/SamplerTree.lean"])
    drv = c.driver(DRIVER)
    binary = c.go_build(HARNESS)
    if binary and drv:
        rc, out = c.go_run(binary, [f"-n={c.n(2500, 60000)}", "-mode=c05"])
        c.harness_ok(rc, out, "verif-c05")
        c.correspond(out, drv)

    def search():
        if not binary:
            return
        for k in range(1, 6):
            rc, out = c.go_run(binary, [f"-n={c.n(10000, 40000)}", f"-seed={c.seed + 1000 * k}", "-mode=c05"])
            c.collect(out, label="c05")
            if c.oracle:
                return
    return search


META = {
    "level": "proof",
    "technique": "Lean 4 theorems over an executable model of data_model/sampling.go (all buckets, budgets, options, draw streams and tie orders) + exact differential correspondence with the real sampler (observed draws) + direct oracle on the real selector",
    "text": ("Kernel-checked: every row gets exactly one keep/discard decision (each_item_once, both code variants), also in a sequence of samplers sharing "
             "SamplerBuffers, where each sampler decides exactly its own rows (each_item_once_seq, runShared_independent); the random selector "
             "decides row i by draw i only (selectRand_own_draw); every decision is 'kept with certainty, factor 1', 'kept iff own draw u "
             "satisfies u*sf<1, carrying that sf>1' or 'rejected by Add (size<1)' (kept_factor_is_inverse_probability, kept_factor_ge_one); "
             "factor x keep-probability lies in [1, 1+sf/2^53) so count/sum/sumsq keep their expectation (keep_iff_below_threshold, "
             "threshold_bounds, expectation_preserved); in agent mode every accepted row of a NoSampleAgent metric is kept with factor 1 "
             "(no_sample_agent_kept, end to end through all hierarchy levels, all modes, both variants) and sampleBucket's own bypass sends rows of "
             "NoSampleAgent metrics whole (agent_no_sample_kept over agentBucket, tied to the real Shard.sampleBucket); the sizes handed to Add are "
             ">= 20 (agent) and >= 72 (aggregator) for every key and row (agent_row_size_ge_20, aggregator_row_size_ge_72 over models of the size "
             "estimates tied to the real functions), hence Add's size<1 / MaxFloat32 branch is unreachable from sampleBucket and from the insert "
             "path (add_discard_unreachable). The model is tied to the "
             "code by replaying every generated bucket on the real sampler and on the compiled model and diffing every row's decision, "
             "factor bits, quota and the MetricGroups statistics."),
    "note": ("Genuine defect found and fixed by fixes/C05-sample-fit.diff: an over-quota fixed-budget metric stops the keep loop, later groups that fit "
             "reach sample() with sf<=1; a single row is then kept with factor sf<1 (oracle sig kept-factor-below-one; Lean witness "
             "orig_keeps_row_with_factor_below_one). The model/theorems describe the fixed code (Variant.fitKeep); the pinned code is Variant.orig. "
             "No theorem is partial. The exception 'rows with size estimate < 1 are discarded by Add with factor MaxFloat32' is shown unreachable from the agent and the "
             "insert path; calcHostMetricBudgets can reach it with an agent-reported original size 0 (quota mode, the row gets no budget; exercised by the C06 host cases). Trusted: Lean kernel, "
             "correspondence on generated buckets (quick 2500, thorough 60000), float64 division being correctly rounded."),
    "design_ref": "DESIGN.md §6 C05",
}
