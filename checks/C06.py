"""C06 — sampling is fair: groups within their share are never sampled (DESIGN §6 C06).
Shares the model (SH.Model.Sampler), the harness (go/C05/overlay, reached through the symlink go/C06/overlay) and the
driver code with C05; the harness runs in -mode=c06 (deterministic selection / quota heavy mix, C06 oracles)."""
HARNESS = "./cmd/verif-c05"
DRIVER = "drv_c06"
REPLAY_ARGS = ["-mode=c06"]


def run(c):
    c.rule = ("same bucket generator as C05 (namespaces x groups x metrics x fair keys, weights 1..1000 incl. unknown/zero -> clamped, fixed "
              "per-metric budgets at {0.5,0.75,1,2}x size and size-1, budgets around sum(size)*{0.1..1.5}, sum-1 and 0..30, 25% flat "
              "hierarchies), mode mix det 50% (test selector floor(len/sf), RoundF=floor; half of them with equally sized rows), quota 25% "
              "(SampleQuota configured as in calcHostMetricBudgets, real roundSampleFactor), rand 25%. Builtin namespaces/groups (negative ids -5 / -4,-2,-3) appear with configured weights next to positive-id "
              "ones (each at most once per bucket). One case in five is shaped for isolation BELOW the metric level (flat hierarchy, SampleKeys on, the metric that sorts "
              "first has no fair keys, the others fair-key lists of different lengths with one flooding value next to small ones); one metric in three "
              "known to Meta also gets 1-3 rows that belong to ANOTHER metric (own Key.Metric and carried MetricMeta with other namespace/group/weight/"
              "fair keys, as ingestion statuses accounted to a user metric) — the model resolves the meta from the carried one and meta storage. "
              "Every 6th case calls the REAL "
              "aggregator.calcHostMetricBudgets on a real Aggregator (built-in agent, metajournal.MetricsStorage filled through ApplyEvent with 1-2 "
              "namespaces x 1-2 groups x 1-3 metrics of various weights, 1-4 hosts, reported sizes 0..120000, receive budgets around the total) and "
              "compares every (metric, host) budget incl. the x2 bonus with the model; its budget roundings use an unseeded generator, so the driver "
              "tries every round-up pattern (<= 2^6) and must reproduce the observation with one of them. Non-trivial = run in which at least one "
              "row was kept unconditionally and at least one row was sampled/discarded; host case with doubled and cut budgets; distinct by "
              "op-sequence hash")
    c.assumptions += [
        "PRNG draws and tie order of sort.Slice are observed on the real run and passed to the model (theorems quantify over all of them)",
        "exact domain (products below 2^53, factors compared as IEEE bits); cases with a value within 1e-9 of a rounding boundary are skipped and counted",
        "weights are positive: metric EffectiveWeight is clamped to >= 1 by format.go (not re-verified here), namespace/group weights by the sampler itself (modelled)",
        "int64 overflow of sumSize*weight not modelled (MaxEffectiveWeight=12800 x MaxUncompressedBucketSize=10 MiB stays far below 2^63)",
        "calcHostMetricBudgets: ReceiveBudgetWarming is set to 0 (rampedReceiveBudget not modelled), the decayed history of earlier seconds (ExpDecayMetrics) is reset before every call; tie order is irrelevant in quota mode (equal ratios are kept or cut together)",
    ]
    c.prove("SH.Props.C06", extra_files=["SH/Model/Sampler.lean", "SH/Model/SamplerIO.lean", "SH/Lemmas/Sampler.lean", "SH/Lemmas/SamplerTree.lean", "SH/Lemmas/SamplerDet.lean"])
    drv = c.driver(DRIVER)
    binary = c.go_build(HARNESS, name="verif-c06")  # own binary name: C05 and C06 may run concurrently
    if binary and drv:
        rc, out = c.go_run(binary, [f"-n={c.n(2500, 60000)}", "-mode=c06"])
        c.harness_ok(rc, out, "verif-c05 -mode=c06")
        c.correspond(out, drv, label="c06")

    def search():
        if not binary:
            return
        for k in range(1, 6):
            rc, out = c.go_run(binary, [f"-n={c.n(10000, 40000)}", f"-seed={c.seed + 1000 * k}", "-mode=c06"])
            c.collect(out, label="c06")
            if c.oracle:
                return
    return search


META = {
    "level": "proof",
    "technique": "Lean 4 theorems about the water-filling loops of an executable model of data_model/sampling.go (every level, all weights/sizes/budgets/tie orders) + exact differential correspondence with the real sampler + direct fairness oracles on the real outputs",
    "text": ("Kernel-checked: the ratio sort really sorts for positive weights whatever the tie order (ratio_sorted); a partition within its "
             "weight-proportional share of the ORIGINAL budget of its parent is kept whole with factor 1 at every level "
             "(fits_share_kept; with fixed per-metric budgets next to it: share_fits_or_still_fits, fits_share_kept_with_fixed_budgets on the fixed "
             "code, through recursion run_fits_all_kept); if everything fits nothing reaches the sampling loop (all_fit_rest_nil, "
             "all_fit_nothing_sampled, bucket_fits_nothing_sampled); larger ratio => not smaller factor (factor_monotone_in_ratio); quota mode: "
             "quota = floor(size*budget/(denom*sumSize)), monotone in size, sum <= budget share (quota_proportional, quota_monotone, "
             "quota_sum_le_budget; with the x2 bonus of calcHostMetricBudgets: host_budget_cases, sampled_row_gets_no_bonus, host_budgets_le_twice_share); "
             "group and namespace weights are looked up for every non-zero id, builtin negative ids included (weight_lookup_ignores_sign; the seeded "
             "guard `ID > 0` is Variant.posIds with the decide witness positive_id_guard_starves_builtin_group); "
             "a partition is sampled with the options of the metric its rows are ACCOUNTED to, whichever row sorts first "
             "(resolve_uses_accounting_metric, metric_partition_uses_accounting_meta); a fair-key value within budget/#values is kept whole "
             "(fair_key_within_share_kept, the byKey instance of fits_share_kept); "
             "deterministic selection never keeps more than the budget plus the fixed budgets in force, by induction over the whole partition tree "
             "(det_kept_le_budget, det_kept_le_budget_plain; SH/Lemmas/SamplerDet.lean), for rows of one size per metric; for rows of arbitrary "
             "sizes the code bounds the NUMBER of kept rows per leaf (det_leaf_count_le) and the byte form is false (det_size_bound_needs_uniform_rows). "
             "Tied to the code by replaying every generated bucket on the real sampler and the compiled model "
             "(decisions, factor bits, quotas, MetricGroups budgets)."),
    "note": ("Genuine defect (same root cause as C05, fixed by fixes/C05-sample-fit.diff): a metric exceeding its fixed budget stops the keep loop; partitions "
             "that fit (own fixed budget or share) reach sample() with sf<=1 and lose rows with factor 2*sf (oracle sigs fixed-budget-fits-but-sampled, "
             "fits-share-but-sampled; Lean witness orig_samples_partition_that_fits). det_kept_le_budget needs: rows of one metric have one size >= 2 bytes, SampleKeepSingle off, NoSampleAgent not in effect (all three keep rows regardless "
             "of the budget; a whale larger than the budget is kept whatever the budget is). The oracle det-kept-cost-over-budget judges the form that holds "
             "for ALL row sizes on every deterministic case meeting the other preconditions: kept rows counted at the average row size of their leaf "
             "(metric x fair key) sum to at most budget + fixed budgets. Quota sums: with the default random RoundF the sum over nested namespaces/groups "
             "can exceed the budget by one per rounded-up group (oracles allow exactly that). Not partial any more: calcHostMetricBudgets is executed. "
             "Oracle fair-key-below-share-sampled judges fair-key values against floor(budget*w/W)/#values, a lower bound of the metric's budget "
             "(valid in flat hierarchies without fixed budgets, where it is evaluated); the copying of the meta pointer from the first row of a "
             "MetricID run is not modelled (the generator keeps rows of one accounting metric consistent). "
             "Reported SampleFactors (per-metric averages) are not modelled."),
    "design_ref": "DESIGN.md §6 C06",
}
