#!/usr/bin/env python3
"""
tl2lean — translate the TL1 schemas of /repo into descriptors of the generic Lean codec (SH.Model.TL) for C14.

Input : the .tl files (read from the repo on every run) + the `item …` lines printed by `verif-c14 -mode=gen`
        (schema, constructor name, tag as compiled into the generated Go factories).
Output: Lean source for lean/SH/Gen/C14.lean  (one `Flds` constant per constructor, a table name -> (tag, Desc) and
        a table function name -> result Desc) and the list of names that could be translated (coverage).

Supported TL1 subset (everything the eight statshouse schemas use except `!X`):
  builtin #, int, long, float, double, string, vector/Vector, tuple/Tuple, `n*[t]`, Bool, true/True, Maybe;
  bare/boxed references (`%T`, lower/upper case), template types {t:Type}, nat parameters {n:#} passed as field
  references or literals, fields conditional on `mask.bit?`, anonymous fields, unions.
A combinator that uses anything else is reported as unsupported, never silently approximated.
"""
import re
import sys
import zlib

BUILTIN_FIXED = {"int": 4, "float": 4, "long": 8, "double": 8}
# boxed builtins: tags from the schema lines `int#a8509bda ? = Int;` (read from the files), fallbacks are the TL standard ones
BOXED_BUILTIN = {"Int": "int", "Long": "long", "Float": "float", "Double": "double", "String": "string"}
STD_TAGS = {"int": 0xa8509bda, "long": 0x22076cba, "float": 0x824dab22, "double": 0x2210c154, "string": 0xb5286e24,
            "vector": 0x1cb5c415, "tuple": 0x9770768a}


class Unsupported(Exception):
    pass


# ------------------------------------------------------------------ lexer / parser

TOKEN = re.compile(r"\s*(?:(//[^\n]*)|(---\w+---)|([A-Za-z_][A-Za-z0-9_.]*(?:#[0-9a-fA-F]+)?)|(\d+)|([(){}<>\[\],%!?:*=;#@]))")


def tokenize(text):
    pos, out = 0, []
    while pos < len(text):
        m = TOKEN.match(text, pos)
        if not m:
            if text[pos:].strip() == "":
                break
            raise SyntaxError(f"cannot tokenize at {text[pos:pos+40]!r}")
        pos = m.end()
        if m.group(1):
            continue
        out.append(m.group(0).strip())
    return out


class Comb:
    def __init__(self):
        self.name = None
        self.tag = None          # explicit #hex or None
        self.tparams = []        # [(name, 'Type'|'#')]
        self.fields = []         # [(name|None, cond|None, typeAST)]
        self.result = None       # typeAST (head = type name, args)
        self.is_fn = False
        self.builtin = False
        self.src = ""


def parse_schema(text):
    toks = tokenize(text)
    combs, i, in_fn = [], 0, False
    while i < len(toks):
        if toks[i] == "---functions---":
            in_fn, i = True, i + 1
            continue
        if toks[i] == "---types---":
            in_fn, i = False, i + 1
            continue
        j = i
        while toks[j] != ";":
            j += 1
        combs.append(parse_comb(toks[i:j], in_fn))
        i = j + 1
    return combs


def parse_comb(t, is_fn):
    c = Comb()
    c.is_fn = is_fn
    c.src = " ".join(t)
    p = 0
    while t[p] == "@":
        p += 2
    head = t[p]
    p += 1
    if "#" in head:
        c.name, tg = head.split("#")
        c.tag = int(tg, 16)
    else:
        c.name = head
    eq = len(t) - 1 - t[::-1].index("=")
    body, res = t[p:eq], t[eq + 1:]
    if body == ["?"]:
        c.builtin = True
        return c
    q = 0
    while q < len(body) and body[q] == "{":
        # {name:Type} or {name:#}
        c.tparams.append((body[q + 1], body[q + 3]))
        assert body[q + 2] == ":" and body[q + 4] == "}", c.src
        q += 5
    c.fields = parse_fields(body[q:], c)
    c.result, r = parse_app(res, 0)
    assert r == len(res), (c.src, res[r:])
    return c


def parse_fields(t, c):
    fields, p = [], 0
    while p < len(t):
        name = cond = None
        if p + 1 < len(t) and t[p + 1] == ":" and re.match(r"[A-Za-z_]", t[p]):
            name = t[p]
            p += 2
        # condition  mask.bit ?
        if p + 1 < len(t) and t[p + 1] == "?":
            m = re.match(r"(.+)\.(\d+)$", t[p])
            if not m:
                raise Unsupported(f"{c.name}: strange condition {t[p]}")
            cond = (m.group(1), int(m.group(2)))
            p += 2
        ty, p = parse_expr(t, p)
        fields.append((name, cond, ty))
    return fields


def parse_expr(t, p):
    """one type expression; returns (ast, next). ast = ('t', head, args, mod) | ('nat',k) | ('rep', countAST|None, ast)"""
    mod = ""
    while t[p] in ("%", "!"):
        mod += t[p]
        p += 1
    if t[p] == "(":
        ast, p = parse_app(t, p + 1)
        assert t[p] == ")", t[p:]
        p += 1
    elif t[p] == "[":
        inner, p = parse_app(t, p + 1)
        assert t[p] == "]"
        ast, p = ("rep", None, inner), p + 1
    elif t[p].isdigit():
        k = int(t[p])
        if p + 1 < len(t) and t[p + 1] == "*":
            assert t[p + 2] == "["
            inner, q = parse_app(t, p + 3)
            assert t[q] == "]"
            ast, p = ("rep", ("nat", k), inner), q + 1
        else:
            ast, p = ("nat", k), p + 1
    elif t[p] == "#":
        ast, p = ("t", "#", [], ""), p + 1
    else:
        head = t[p]
        p += 1
        args = []
        if p < len(t) and t[p] == "<":
            p += 1
            while True:
                a, p = parse_app(t, p)
                args.append(a)
                if t[p] == ",":
                    p += 1
                    continue
                assert t[p] == ">", t[p:]
                p += 1
                break
        ast = ("t", head, args, "")
    if mod:
        if ast[0] != "t":
            raise Unsupported("modifier on non-type")
        ast = ("t", ast[1], ast[2], mod)
    return ast, p


def parse_app(t, p):
    """head arg arg … (until a closing token)"""
    head, p = parse_expr(t, p)
    args = []
    while p < len(t) and t[p] not in (")", "]", ">", ",", ";", "="):
        a, p = parse_expr(t, p)
        args.append(a)
    if args:
        if head[0] != "t" or head[2]:
            raise Unsupported("application of a non-name")
        head = ("t", head[1], args, head[3])
    return head, p


# ------------------------------------------------------------------ translation

def lname(s):
    return re.sub(r"[^A-Za-z0-9]", "_", s)


class Schema:
    def __init__(self, name, texts, tags):
        self.name = name
        self.tags = tags                      # constructor name -> tag from the generated factory
        self.combs = {}
        self.types = {}                       # Type name -> [constructors]
        self.order = []
        for text in texts:
            for c in parse_schema(text):
                if c.builtin:
                    if c.tag is not None:
                        STD_TAGS[c.name] = c.tag
                    continue
                if c.name in ("vector", "tuple"):
                    if c.tag is not None:
                        STD_TAGS[c.name] = c.tag
                    continue
                self.combs[c.name] = c
                self.order.append(c.name)
                if not c.is_fn:
                    self.types.setdefault(c.result[1], []).append(c)
        self.flds_defs = {}                   # lean constant -> text
        self.memo = {}

    # -- tags
    def tag_of(self, c):
        if c.tag is not None:
            return c.tag
        if c.name in self.tags:
            return self.tags[c.name]
        raise Unsupported(f"tag of {c.name} unknown (no explicit #tag and not in the generated factory)")

    # -- nat expressions
    def nat(self, ast, scope):
        if ast[0] == "nat":
            return f"(.const {ast[1]})"
        if ast[0] == "t" and not ast[2] and ast[1] in scope["nats"]:
            return f"(.var {scope['nats'][ast[1]]})"
        raise Unsupported(f"nat argument {ast} not resolvable")

    # -- fields of a constructor instantiated with type arguments (nat parameters stay symbolic: they are the env prefix)
    def flds(self, c, targs):
        """returns Lean text of the Flds of constructor c with its Type parameters bound to targs (list of Lean Desc texts)"""
        key = (c.name, tuple(targs))
        if key in self.memo:
            return self.memo[key]
        tbind, nats = {}, {}
        ti = 0
        for (pn, kind) in c.tparams:
            if kind == "Type":
                tbind[pn] = targs[ti]
                ti += 1
            elif kind == "#":
                nats[pn] = len(nats)
            else:
                raise Unsupported(f"{c.name}: parameter kind {kind}")
        scope = {"types": tbind, "nats": nats}
        parts = []
        for (fname, cond, ty) in c.fields:
            if ty[0] == "t" and "!" in ty[3]:
                raise Unsupported(f"{c.name}: !X field")
            is_nat = ty == ("t", "#", [], "")
            if cond is None and is_nat:
                parts.append(".natF")
                if fname:
                    scope["nats"][fname] = len(scope["nats"])
                else:
                    scope["nats"][f"_anon{len(scope['nats'])}"] = len(scope["nats"])
                continue
            d = self.desc(ty, scope, prev_nat=self.last_nat(scope))
            if cond is None:
                parts.append(f".fld {d}")
            else:
                m, bit = cond
                if m not in scope["nats"]:
                    raise Unsupported(f"{c.name}: condition on {m} which is not an unconditional # field or nat parameter")
                parts.append(f".opt (.var {scope['nats'][m]}) {bit} {d}")
                if is_nat and fname:
                    scope.setdefault("condnats", set()).add(fname)
        text = ""
        for p in reversed(parts):
            text = f"({p} {text or '.nil'})" if text else f"({p} .nil)"
        text = text or ".nil"
        if not targs:
            const = "f_" + lname(self.name + "_" + c.name)
            self.flds_defs[const] = text
            text = const
        self.memo[key] = text
        return text

    def last_nat(self, scope):
        return None

    def split_args(self, c, args, scope):
        targs, nargs = [], []
        if len(args) != len(c.tparams):
            raise Unsupported(f"{c.name}: {len(args)} arguments for {len(c.tparams)} parameters")
        for (pn, kind), a in zip(c.tparams, args):
            if kind == "Type":
                d = self.desc(a, scope)
                if ".var" in d:
                    # the argument would be evaluated in the environment of the template's constructor, not here
                    raise Unsupported(f"{c.name}: type argument that depends on a nat variable of the enclosing constructor")
                targs.append(d)
            else:
                nargs.append(self.nat(a, scope))
        return targs, nargs

    def ctor_desc(self, c, args, scope):
        targs, nargs = self.split_args(c, args, scope)
        return f"(.struct [{', '.join(nargs)}] {self.flds(c, targs)})"

    def desc(self, ast, scope, prev_nat=None):
        if ast[0] == "nat":
            raise Unsupported("number where a type is expected")
        if ast[0] == "rep":
            cnt, inner = ast[1], ast[2]
            if cnt is None:
                raise Unsupported("[t] repetition over the preceding field")
            return f"(.tup {self.nat(cnt, scope)} {self.desc(inner, scope)})"
        _, head, args, mod = ast
        if "!" in mod:
            raise Unsupported("!X")
        bare_mod = "%" in mod
        if head == "#":
            return ".nat"
        if head in scope["types"] and not args:
            return scope["types"][head]
        if head in BUILTIN_FIXED and not args:
            return f"(.fixed {BUILTIN_FIXED[head]})"
        if head == "string" and not args:
            return ".str"
        if head in BOXED_BUILTIN and not args:
            b = BOXED_BUILTIN[head]
            inner = ".str" if b == "string" else f"(.fixed {BUILTIN_FIXED[b]})"
            return inner if bare_mod else f"(.boxed {STD_TAGS[b]} {inner})"
        if head in ("vector", "Vector"):
            if len(args) != 1:
                raise Unsupported("vector arity")
            inner = f"(.vec {self.desc(args[0], scope)})"
            return inner if (head == "vector" or bare_mod) else f"(.boxed {STD_TAGS['vector']} {inner})"
        if head in ("dictionary", "Dictionary") and "dictionary" in self.combs:
            # `dictionary {t:Type} %(Vector %(DictionaryField t)) = Dictionary t`: one anonymous field. The generators treat
            # it as a builtin (no object of its own in TL2; in TL1 a constructor with one field is that field), so it is
            # translated to the field itself.
            c = self.combs["dictionary"]
            if len(args) != 1 or len(c.fields) != 1 or c.fields[0][0] is not None or c.fields[0][1] is not None:
                raise Unsupported("dictionary is not the one-anonymous-field builtin")
            targ = self.desc(args[0], scope)
            if ".var" in targ:
                raise Unsupported("dictionary of a type that depends on a nat variable")
            inner = self.desc(c.fields[0][2], {"types": {c.tparams[0][0]: targ}, "nats": {}})
            return inner if (head == "dictionary" or bare_mod) else f"(.boxed {self.tag_of(c)} {inner})"
        if head in ("tuple", "Tuple"):
            if len(args) != 2:
                raise Unsupported("tuple arity")
            inner = f"(.tup {self.nat(args[1], scope)} {self.desc(args[0], scope)})"
            return inner if (head == "tuple" or bare_mod) else f"(.boxed {STD_TAGS['tuple']} {inner})"
        last = head.split(".")[-1]
        if last[0].islower():                     # constructor name: bare
            c = self.combs.get(head)
            if c is None or c.is_fn:
                raise Unsupported(f"unknown constructor {head}")
            return self.ctor_desc(c, args, scope)
        cs = self.types.get(head)                 # type name: boxed (or bare with %)
        if not cs:
            raise Unsupported(f"unknown type {head}")
        if len(cs) == 1:
            d = self.ctor_desc(cs[0], args, scope)
            return d if bare_mod else f"(.boxed {self.tag_of(cs[0])} {d})"
        if bare_mod:
            raise Unsupported(f"bare union {head}")
        alts = ".nil"
        for c in reversed(cs):
            alts = f"(.cons {self.tag_of(c)} {self.ctor_desc(c, args, scope)} {alts})"
        return f"(.union {alts})"

    # -- TL2: float/double as a *direct* field is outside the modelled TL2 fragment (absent iff == 0 drops -0.0)
    def has_direct_float(self, name, seen=None):
        seen = set() if seen is None else seen

        def walk(ast, direct):
            if ast[0] != "t":
                return ast[0] == "rep" and walk(ast[2], False)
            head, args = ast[1], ast[2]
            if head in ("float", "double", "Float", "Double"):
                return direct
            if head in ("vector", "Vector"):
                return any(walk(a, False) for a in args if a[0] == "t")
            if head in ("tuple", "Tuple"):
                return any(walk(a, False) for a in args if a[0] != "nat")
            if any(walk(a, True) for a in args if a[0] == "t"):   # type arguments end up as direct fields (dictionary values …)
                return True
            cs = [self.combs[head]] if head in self.combs else self.types.get(head, [])
            return any(comb(c) for c in cs)

        def comb(c):
            if c.name in seen:
                return False
            seen.add(c.name)
            return any(walk(ty, True) for (_, _, ty) in c.fields)

        if name in self.combs:
            return comb(self.combs[name])
        return any(comb(c) for c in self.types.get(name, []))

    # -- top level
    def translate(self, item_names):
        """item_names: names of the generated factory of this schema. returns (entries, results, unsupported)"""
        entries, results, unsupported = [], [], {}
        for name in item_names:
            try:
                if name in self.combs:
                    c = self.combs[name]
                    if c.tparams:
                        raise Unsupported("has parameters")
                    d = f"(.struct [] {self.flds(c, [])})"
                    entries.append((name, self.tag_of(c), d, False))
                    if c.is_fn:
                        try:
                            # the result type is written in the scope of the function's fields
                            scope = {"types": {}, "nats": {}}
                            for (fname, cond, ty) in c.fields:
                                if cond is None and ty == ("t", "#", [], "") and fname:
                                    scope["nats"][fname] = len(scope["nats"])
                            r = c.result
                            # a function result is always boxed
                            rd = self.desc(("t", r[1], r[2], ""), scope)
                            results.append((name, rd))
                        except Unsupported as ex:
                            unsupported[name + " (result)"] = str(ex)
                elif name in self.types:          # a union type registered as an item (boxed only)
                    d = self.desc(("t", name, [], ""), {"types": {}, "nats": {}})
                    entries.append((name, 0, d, True))
                elif name in BUILTIN_FIXED or name == "string":
                    d = ".str" if name == "string" else f"(.fixed {BUILTIN_FIXED[name]})"
                    entries.append((name, STD_TAGS[name], d, False))
                else:
                    raise Unsupported("not found in the schema files")
            except Unsupported as ex:
                unsupported[name] = str(ex)
        return entries, results, unsupported


def generate(schemas, items, max_bucket):
    """schemas: {schema name: [tl texts]}; items: [(schema, name, tag[, has_tl2])]. returns (lean_text, support_text, coverage)"""
    tl2_items = {(it[0], it[1]) for it in items if len(it) > 3 and it[3]}
    items = [(it[0], it[1], it[2]) for it in items]
    out = ["/- GENERATED by tools/tl2lean.py from the .tl files of /repo and the generated Go factories. Do not edit. -/",
           "import SH.Model.TL", "namespace SH.Gen.C14", "open SH.TL", "",
           f"def maxUncompressedBucketSize : Nat := {max_bucket}", ""]
    table, rtable, t2table, support = [], [], [], []
    cov = {"unsupported": {}, "translated": 0, "results": 0, "items": len(items), "tl2_items": len(tl2_items), "tl2_float_fields": []}
    for sname in sorted(schemas):
        names = [n for (s, n, t) in items if s == sname]
        tags = {n: t for (s, n, t) in items if s == sname}
        sch = Schema(sname, schemas[sname], tags)
        entries, results, unsupported = sch.translate(names)
        for const, text in sch.flds_defs.items():
            out.append(f"def {const} : Flds := {text}")
        for (name, tag, d, is_union) in entries:
            const = "d_" + lname(sname + "_" + name)
            out.append(f"def {const} : Desc := {d}")
            table.append(f'  ("{sname}/{name}", {tag}, {"true" if is_union else "false"}, {const})')
            support.append(f"desc {sname}/{name}")
            if (sname, name) in tl2_items:
                if sch.has_direct_float(name):
                    cov["tl2_float_fields"].append(f"{sname}/{name}")
                else:
                    t2table.append(f'  ("{sname}/{name}", {const})')
                    support.append(f"tl2 {sname}/{name}")
        for (name, rd) in results:
            const = "r_" + lname(sname + "_" + name)
            out.append(f"def {const} : Desc := {rd}")
            rtable.append(f'  ("{sname}/{name}", {const})')
            support.append(f"result {sname}/{name}")
        for k, v in unsupported.items():
            cov["unsupported"][f"{sname}/{k}"] = v
        cov["translated"] += len(entries)
        cov["results"] += len(results)
    for (s, n, t) in items:
        if s not in schemas:
            cov["unsupported"][f"{s}/{n}"] = "no .tl schema for this generated package in the repository"
    out.append("")
    out.append("/-- name ↦ (constructor tag, is a union item (boxed form only), descriptor of the bare form) -/")
    out.append("def table : List (String × Nat × Bool × Desc) := [")
    out.append(",\n".join(table))
    out.append("]")
    out.append("")
    out.append("/-- function name ↦ descriptor of its (boxed) result, in the environment of the function's `#` fields -/")
    out.append("def results : List (String × Desc) := [")
    out.append(",\n".join(rtable))
    out.append("]")
    out.append("")
    out.append("/-- the types the generator produced TL2 code for (and that have no float/double as a direct field) -/")
    out.append("def tl2table : List (String × Desc) := [")
    out.append(",\n".join(t2table))
    out.append("]")
    out.append("")
    out.append("end SH.Gen.C14")
    return "\n".join(out) + "\n", "\n".join(support) + "\n", cov


if __name__ == "__main__":
    import json
    import os
    repo = sys.argv[1] if len(sys.argv) > 1 else "/repo"
    items = []
    maxb = 0
    for line in sys.stdin:
        f = line.split()
        if f and f[0] == "item":
            items.append((f[1], f[2], int(f[3], 16)))
        if f and f[0] == "const" and f[1] == "MaxUncompressedBucketSize":
            maxb = int(f[2])
    files = {
        "data_model": ["common.tl", "engine.tl", "metadata.tl", "schema.tl", "public.tl", "api.tl"],
    }
    sch = {"data_model": [open(os.path.join(repo, "internal/data_model", f)).read() for f in files["data_model"]]}
    lean, support, cov = generate(sch, items, maxb)
    sys.stdout.write(lean)
    sys.stderr.write(json.dumps(cov, indent=1))
