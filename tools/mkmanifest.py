#!/usr/bin/env python3
"""tools/mkmanifest.py — regenerate MANIFEST.json from the META dict of every checks/Cxx.py"""
import importlib.util, json, os, sys
VERIF = os.path.dirname(os.path.dirname(os.path.abspath(__file__)))
props = [json.loads(l) for l in open(os.path.join(VERIF, "properties.jsonl"))]
checks, na = [], []
pending = {}
try:
    pending = json.load(open(os.path.join(VERIF, "tools", "not_applicable.json")))
except FileNotFoundError:
    pass
for p in props:
    pid = p["id"]
    path = os.path.join(VERIF, "checks", pid + ".py")
    meta = None
    if os.path.exists(path):
        spec = importlib.util.spec_from_file_location("check_" + pid, path)
        mod = importlib.util.module_from_spec(spec)
        sys.path.insert(0, os.path.join(VERIF, "lib"))
        spec.loader.exec_module(mod)
        meta = getattr(mod, "META", None)
    if meta is None:
        na.append({"property_id": pid, "reason": pending.get(pid, "check not built yet in this round (no claim made); design in DESIGN.md §6")})
        continue
    checks.append({
        "property_id": pid,
        "quick_cmd": f"bin/check {pid} quick",
        "thorough_cmd": f"bin/check {pid} thorough",
        "evidence_file": f"/verif/evidence/{pid}.json",
        "replay_cmd_template": f"bin/check {pid} --replay {{path}}",
        "engine": "lean4-model-proof+correspondence",
        "level_claimed": {"category": meta["level"], "text": meta["text"], "design_ref": meta.get("design_ref", "DESIGN.md §6 " + pid)},
        "level_note": meta["note"],
        "technique": meta["technique"],
    })
m = {
    "version": 1,
    "setup_cmd": "bin/setup",
    "hooks": {
        "guard": "verif",
        "enable": "go build -tags verif -overlay <generated from /verif/go/*/overlay> (harness files are added to /repo's packages through the overlay; /repo itself carries no hook code)",
        "baseline_off_cmd": "cd /repo && GOFLAGS=-mod=mod GOPROXY=off go test -json -vet=off -count=1 -timeout 25m ./...",
        "source_commits": [],
        "add_only": True,
    },
    "engines": [{
        "name": "lean4-model-proof+correspondence",
        "path": "/verif/bin/check",
        "serves_properties": [c["property_id"] for c in checks],
        "kind_free_text": "Lean 4 kernel-checked theorems about executable models (lean/SH), tied to /repo by a Go differential harness compiled into the repo's packages with -tags verif via go build -overlay, plus a direct property oracle for replays",
    }],
    "checks": checks,
    "not_applicable": na,
    "notes": "See DESIGN.md. fix: commits in /repo are listed in known_findings.txt.",
}
json.dump(m, open(os.path.join(VERIF, "MANIFEST.json"), "w"), indent=1)
print(f"{len(checks)} checks, {len(na)} not claimed")
