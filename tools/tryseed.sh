#!/usr/bin/env bash
# tools/tryseed.sh <property id> <seed dir with patch.diff/meta.json/demo> <worktree> [tier]
# 1. verifies the seed in the scratch worktree: existing tests pass with the patch, demo fails with and passes without it
# 2. runs bin/check <id> against the patched worktree (VERIF_REPO) and prints the verdict
set -u
PID=$1; SD=$2; WT=$3; TIER=${4:-quick}
export GOFLAGS=-mod=mod GOPROXY=off
cd "$WT" || exit 2
git checkout -q -- . && git clean -fdq
[ -n "${TRYSEED_PRE:-}" ] && eval "$TRYSEED_PRE"
DEMO_PATH=$(python3 -c "import json;print(json.load(open('$SD/meta.json'))['demo_path'])")
DEMO_CMD=$(python3 -c "import json;print(json.load(open('$SD/meta.json'))['demo_cmd'])")
TESTS_CMD=$(python3 -c "import json;print(json.load(open('$SD/meta.json'))['tests_cmd'])")
DEMO_SRC=$(ls "$SD"/demo_test.go "$SD"/demo/main.go 2>/dev/null | head -1)
mkdir -p "$(dirname "$DEMO_PATH")"; cp "$DEMO_SRC" "$DEMO_PATH"
echo "--- demo without patch"; (eval "$DEMO_CMD") >/tmp/tryseed.$$.a 2>&1; A=$?; tail -2 /tmp/tryseed.$$.a
git apply "$SD/patch.diff" || { echo "PATCH DOES NOT APPLY"; exit 2; }
echo "--- demo with patch"; (eval "$DEMO_CMD") >/tmp/tryseed.$$.b 2>&1; B=$?; tail -3 /tmp/tryseed.$$.b
rm -f "$DEMO_PATH"
echo "--- existing tests with patch"; (eval "$TESTS_CMD") >/tmp/tryseed.$$.c 2>&1; C=$?; tail -3 /tmp/tryseed.$$.c
echo "SEED-VALID: demo_without=$A (want 0) demo_with=$B (want !=0) tests_with=$C (want 0)"
[ -n "${TRYSEED_POST:-}" ] && eval "$TRYSEED_POST"
echo "--- bin/check $PID $TIER against patched tree"
(cd /verif && VERIF_REPO="$WT" bin/check "$PID" "$TIER") > /tmp/tryseed.$$.d 2>&1; D=$?
grep -E "VIOLATION|KNOWN-FINDING|^OK" /tmp/tryseed.$$.d | head -5
echo "CHECK-EXIT=$D"
git checkout -q -- . && git clean -fdq
rm -f /tmp/tryseed.$$.*
