#!/usr/bin/env bash
# tools/runall.sh [tier] ids...  — run checks sequentially, one summary line each
tier=${1:-quick}; shift
for p in "$@"; do
  s=$(date +%s)
  out=$(bin/check $p $tier 2>&1); rc=$?
  e=$(date +%s)
  echo "$p rc=$rc $((e-s))s :: $(echo "$out" | grep -E 'VIOLATION|KNOWN-FINDING|^OK' | head -3 | tr '\n' ';')"
done
