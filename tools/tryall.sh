#!/usr/bin/env bash
# tools/tryall.sh <PID> [check ids...] — verify every seed under /tmp/seed-PID/seedout-PID, run the check(s), archive under seeded/
PID=$1; shift; CHECKS=${@:-$PID}
SO=${SEEDOUT:-seedout}; TAG=${SEEDTAG:-}
for d in /tmp/seed-$PID/$SO-$PID/*/; do
  i=$(basename $d)
  res=""
  for c in $CHECKS; do
    out=$(tools/tryseed.sh $c $d /tmp/seed-$PID/wt 2>&1)
    valid=$(echo "$out" | grep SEED-VALID)
    verdict=$(echo "$out" | grep -E "VIOLATION|^OK|CHECK-EXIT" | tr '\n' ';')
    res="$res [$c] $verdict"
    echo "== $PID seed $i check $c :: $valid :: $verdict"
  done
  dst=seeded/$PID-$TAG$i; mkdir -p $dst
  cp $d/patch.diff $dst/; cp $d/demo_test.go $dst/ 2>/dev/null; cp -r $d/demo $dst/ 2>/dev/null
  python3 - "$d/meta.json" "$dst/meta.json" "$valid" "$res" <<'PY'
import json,sys
m=json.load(open(sys.argv[1]))
m['confirmed']={'how':'tools/tryseed.sh (scratch worktree: demo without patch, demo with patch, package tests with patch)','result':sys.argv[3]}
m['check_result_quick']=sys.argv[4]
json.dump(m,open(sys.argv[2],'w'),indent=1)
PY
done
