#!/usr/bin/env python3
import sys, json
pid, num = sys.argv[1], sys.argv[2]
p = {json.loads(l)["id"]: json.loads(l) for l in open("/verif/properties.jsonl")}[pid]
t = open(sys.argv[3] if len(sys.argv)>3 else "/verif/tools/seed_prompt.txt").read()
t = t.replace("WORKTREE", f"/tmp/seed-{pid}/wt").replace("PROPERTY_TEXT", p["title"] + ". " + p["statement"] + " (Quantified over: " + p["quantifier"]["text"] + ")")
t = t.replace("ANCHORS", ", ".join(p["anchors"]["files"])).replace("NUM", num).replace("ID", pid)
print(t)
