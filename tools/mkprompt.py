#!/usr/bin/env python3
import sys, json
ids = sys.argv[1].split("+")
hint = sys.argv[2] if len(sys.argv) > 2 else ""
props = {json.loads(l)["id"]: json.loads(l) for l in open("/verif/properties.jsonl")}
blk = []
for i in ids:
    p = props[i]
    blk.append(f"{i} — {p['title']}\nStatement: {p['statement']}\nQuantifier: {p['quantifier']['text']}\nAnchors: {', '.join(p['anchors']['files'])}")
t = open("/verif/tools/agent_prompt.txt").read().replace("PROPERTY_BLOCK", "\n\n".join(blk) + ("\n\nHints from the design round (verify them yourself, they may be wrong): " + hint if hint else ""))
print(t)
